---------------------------- MODULE SodLockTrace ----------------------------
(***************************************************************************)
(* Binding of the EXTRACTED lock model (SodLockFacts) to the running code. *)
(*                                                                         *)
(* The lock operations of real executions are recorded through the mutex   *)
(* shim, each with the source position of the call and the entry point it  *)
(* belongs to.  Every recorded sequence must be a path of the extracted    *)
(* program of that entry point: the program is run as a non-deterministic  *)
(* automaton (positions + epsilon edges, restarting when the entry point   *)
(* is called again), consuming one recorded operation per step.  A record  *)
(* that the automaton cannot follow means the extraction misrepresents the *)
(* code: the lock model is then not applicable to this tree.               *)
(***************************************************************************)
EXTENDS Integers, Sequences, FiniteSets, TLC, Json, SodLockFacts

CONSTANTS TraceFile, Dev,
          Expected     \* number of steps that consume the whole recording (operations + records), computed by the caller
Trace == ndJsonDeserialize(TraceFile)

VARIABLES l,   \* record
          i,   \* next operation of the record
          S    \* set of <<program, position>> the automaton may be at

vars == <<l, i, S>>

Cands(en) == IF en \in ProgramNames THEN {en} ELSE IF en = "goroutine" THEN GoroutinePrograms ELSE {}
EndOf(p)  == Len(ProgramOf(p).ops) + 1

RECURSIVE Close(_)
Close(X) ==
  LET W == X \cup UNION {{<<x[1], ed[2]>> : ed \in {d \in ProgramOf(x[1]).eps : d[1] = x[2]}} : x \in X}
             \cup {<<x[1], 1>> : x \in {y \in X : y[2] = EndOf(y[1])}}       \* the entry point is called again
             \* a channel receive is a step of the program that the mutex shim does not record
             \cup {<<x[1], x[2] + 1>> : x \in {y \in X : y[2] < EndOf(y[1]) /\ ProgramOf(y[1]).ops[y[2]].k = "recv"}}
  IN IF W = X THEN X ELSE Close(W)

Start(r) == Close({<<p, 1>> : p \in Cands(r.entry)})

Init == l = 1 /\ i = 1 /\ S = IF Len(Trace) > 0 THEN Start(Trace[1]) ELSE {}

Consume ==
  /\ l <= Len(Trace) /\ i <= Len(Trace[l].ops)
  /\ LET op == Trace[l].ops[i] IN
     S' = Close({<<x[1], x[2] + 1>> : x \in {y \in S : y[2] < EndOf(y[1]) /\ ProgramOf(y[1]).ops[y[2]].k = op[1]
                                                                          /\ ProgramOf(y[1]).ops[y[2]].site \in {op[2], "defer"}}})
  /\ i' = i + 1 /\ UNCHANGED l

NextRecord ==
  /\ l <= Len(Trace) /\ i = Len(Trace[l].ops) + 1
  \* the call has returned: the program is at its end (a background goroutine may be cut anywhere)
  /\ Trace[l].entry = "goroutine" \/ \E x \in S : x[2] = EndOf(x[1])
  /\ l' = l + 1 /\ i' = 1
  /\ S' = IF l + 1 <= Len(Trace) THEN Start(Trace[l + 1]) ELSE {}

Next == Consume \/ NextRecord
Spec == Init /\ [][Next]_vars

\* the automaton can always follow the recording
Follows == l <= Len(Trace) => S # {}
\* when the operations of a record are exhausted the program is at its end (the call returned)
Ends == (l <= Len(Trace) /\ i = Len(Trace[l].ops) + 1 /\ Trace[l].entry # "goroutine") => \E x \in S : x[2] = EndOf(x[1])
\* every record was consumed up to its end (the automaton is deterministic as a set: one state per step)
TraceAccepted == TLCGet("stats").diameter - 1 = Expected
=============================================================================
