------------------------------- MODULE SodPair -------------------------------
(***************************************************************************)
(* C12: the same sequence of calls executed under two storage              *)
(* configurations (cache, compression, asynchronous writes, lower-case     *)
(* names, extension, indexed or not) must yield the same results.          *)
(*                                                                         *)
(* Two traces recorded from the real code for the SAME tests are consumed  *)
(* in lock step; PairOK compares every pair of events after normalisation: *)
(* identifiers are slots, unordered results are sets, order is compared    *)
(* only where both sides promise one, Control only when neither side can   *)
(* have pending writes.  Configuration-dependent fields (header, messages, *)
(* directory walks) are not compared.                                      *)
(***************************************************************************)
EXTENDS Integers, Sequences, FiniteSets, TLC, Json

CONSTANTS TraceFile, TraceFileB, Dev

A == ndJsonDeserialize(TraceFile)
B == ndJsonDeserialize(TraceFileB)

VARIABLE l
vars == <<l>>
Init == l = 1
Next == l <= Len(A) /\ l <= Len(B) /\ l' = l + 1
Spec == Init /\ [][Next]_vars
TraceAccepted == TLCGet("stats").diameter - 1 = Len(A) /\ Len(A) = Len(B)

Seq2Set(s) == {s[i] : i \in 1..Len(s)}
Has(r, k)  == k \in DOMAIN r

AllSet(o) == {<<o.all[i][1], o.recs[o.all[i][2]]>> : i \in 1..Len(o.all)}

GetEq(x, y, a, b) ==
  /\ x.slot = y.slot /\ x.ex = y.ex
  /\ \A k \in {"g1", "gu", "g2"} :
       /\ x[k][1] = y[k][1]
       /\ x[k][1] = "ok" => (a.recs[x[k][2]] = b.recs[y[k][2]] /\ x[k][3] = y[k][3])

QEq(x, y) ==
  /\ x[1] = y[1]                      \* the same query
  /\ x[2] = y[2]                      \* the same outcome class (incl. invalid pattern, mistyped probe, unknown operator)
  /\ x[4] = y[4]                      \* the same Len
  /\ {x[3][j][1] : j \in 1..Len(x[3])} = {y[3][j][1] : j \in 1..Len(y[3])}
  /\ Len(x[3]) = Len(y[3])

ObsEq(a, b) ==
  /\ a.after_fail = b.after_fail
  /\ a.all_c = b.all_c /\ a.count_c = b.count_c /\ a.count = b.count
  /\ AllSet(a) = AllSet(b) /\ Len(a.all) = Len(b.all)
  /\ Len(a.get) = Len(b.get) /\ \A i \in 1..Len(a.get) : GetEq(a.get[i], b.get[i], a, b)
  /\ (Has(a, "q") /\ Has(b, "q")) => (Len(a.q) = Len(b.q) /\ \A i \in 1..Len(a.q) : QEq(a.q[i], b.q[i]))
  /\ (Has(a, "aidx") /\ Has(b, "aidx")) =>
        \A f \in DOMAIN a.aidx \cap DOMAIN b.aidx : (a.aidx[f][1] = "ok" /\ b.aidx[f][1] = "ok") => a.aidx[f][2] = b.aidx[f][2]
  /\ (~a.async /\ ~b.async) => a.control = b.control

BatchEq(x, y) ==
  /\ Len(x) = Len(y)
  /\ \A i \in 1..Len(x) : /\ x[i].slot = y[i].slot
                          /\ Has(x[i], "after") = Has(y[i], "after")
                          /\ Has(x[i], "after") => (x[i].after = y[i].after /\ x[i].kept = y[i].kept /\ x[i].fresh = y[i].fresh)

ItemsEq(x, y) == /\ Len(x) = Len(y)
                 /\ {<<x[i][1], x[i][2]>> : i \in 1..Len(x)} = {<<y[i][1], y[i][2]>> : i \in 1..Len(y)}

EqEvent(a, b) ==
  /\ a.ev = b.ev
  /\ CASE a.ev = "put"       -> a.c = b.c /\ a.slot = b.slot /\ a.after = b.after /\ a.kept = b.kept /\ a.fresh = b.fresh /\ a.hooks = b.hooks
       [] a.ev = "many"      -> a.c = b.c /\ a.n = b.n /\ BatchEq(a.batch, b.batch) /\ a.hooks = b.hooks
       [] a.ev = "del"       -> a.c = b.c
       [] a.ev = "delall"    -> a.c = b.c
       [] a.ev = "delsearch" -> a.c = b.c /\ a.len = b.len
       [] a.ev = "reopen"    -> a.c = b.c /\ a.cc = b.cc
       [] a.ev = "flush"     -> a.c = b.c
       [] a.ev = "eval"      -> a.c = b.c /\ a.len = b.len
       [] a.ev = "collect"   -> a.c = b.c /\ (a.lim < 0 => ItemsEq(a.items, b.items)) /\ Len(a.items) = Len(b.items)
       [] a.ev = "obs"       -> ObsEq(a, b)
       \* the argument battery: same outcome class, same number of objects, for every triple
       [] a.ev = "args"      -> /\ Len(a.res) = Len(b.res)
                                /\ \A i \in 1..Len(a.res) : /\ a.res[i][1] = b.res[i][1] /\ a.res[i][2] = b.res[i][2]
                                                              /\ a.res[i][5] = b.res[i][5]
                                                              \* which error wins for a doubly malformed triple is not promised
                                                              /\ ((a.res[i][3] # "malformed") => (a.res[i][4] = b.res[i][4] /\ a.res[i][6] = b.res[i][6]))
                                                              /\ ((a.res[i][3] = "malformed") => ((a.res[i][4] = "ok") = (b.res[i][4] = "ok")))
       [] a.ev = "hdr"       -> a.c = b.c
       [] a.ev \in {"panic", "hang"} -> FALSE
       [] OTHER              -> TRUE

Conf_C12 == l > 1 => EqEvent(A[l - 1], B[l - 1])
=============================================================================
