------------------------------ MODULE SodRepair ------------------------------
(***************************************************************************)
(* C11 at design level.  While no handle is open the environment may       *)
(* remove object files, add object files (valid objects, fresh ids),       *)
(* remove index entries from the serialised index, or remove schema.json.  *)
(* A handle then goes through the documented recovery:                     *)
(*   Open - first access (lazy load; Create with the original settings if  *)
(*   the schema is gone) - Control - Repair - Control.                     *)
(* The actions are the code's: the first load and Control compare the SET  *)
(* of indexed identifiers with the SET of file identifiers; Repair drops    *)
(* every entry whose file is gone and rebuilds every other entry from the  *)
(* values found in the file (it used to keep the entries of files already  *)
(* indexed: fixed, F25), touches no file and does not commit.              *)
(*                                                                         *)
(*   ControlIff       corruption is reported iff the sets differ           *)
(*   RepairConverges  after Repair index and files agree (ids and values)  *)
(*   RepairKeepsFiles Repair changes no file                               *)
(***************************************************************************)
EXTENDS Integers, FiniteSets, TLC

CONSTANTS Slots, Vals, MaxDamage

VARIABLES files,    \* slot -|-> value       (the object files)
          sidx,     \* slot -|-> value       (the index serialised in schema.json)
          schema,   \* schema.json exists
          midx,     \* in-memory index of the handle
          phase,    \* "closed" | "loaded" | "repaired"
          report,   \* what the last load / Control reported: "ok" | "corrupted" | "none"
          ndmg

vars == <<files, sidx, schema, midx, phase, report, ndmg>>
Empty == [x \in {} |-> 0]
Upd(S, u, o) == [x \in DOMAIN S \cup {u} |-> IF x = u THEN o ELSE S[x]]
Rem(S, U)    == [x \in DOMAIN S \ U |-> S[x]]

\* any consistent closed database
Init == /\ files \in UNION {[D -> Vals] : D \in SUBSET Slots}
        /\ sidx = files /\ schema = TRUE /\ midx = Empty /\ phase = "closed" /\ report = "none" /\ ndmg = 0

Closed == phase = "closed" /\ ndmg < MaxDamage
RmFile(u)     == Closed /\ u \in DOMAIN files /\ files' = Rem(files, {u}) /\ ndmg' = ndmg + 1 /\ UNCHANGED <<sidx, schema, midx, phase, report>>
AddFile(u, v) == Closed /\ u \notin DOMAIN files /\ u \notin DOMAIN sidx /\ files' = Upd(files, u, v) /\ ndmg' = ndmg + 1 /\ UNCHANGED <<sidx, schema, midx, phase, report>>
Unindex(u)    == Closed /\ schema /\ u \in DOMAIN sidx /\ sidx' = Rem(sidx, {u}) /\ ndmg' = ndmg + 1 /\ UNCHANGED <<files, schema, midx, phase, report>>
RmSchema      == Closed /\ schema /\ schema' = FALSE /\ sidx' = Empty /\ ndmg' = ndmg + 1 /\ UNCHANGED <<files, midx, phase, report>>

Diverged(ix) == DOMAIN ix # DOMAIN files

\* first access: lazy load of schema.json, or Create of a fresh schema when it is gone; both control the index
Load == /\ phase = "closed"
        /\ midx' = IF schema THEN sidx ELSE Empty
        /\ report' = IF Diverged(midx') THEN "corrupted" ELSE "ok"
        /\ phase' = "loaded" /\ schema' = TRUE
        /\ UNCHANGED <<files, sidx, ndmg>>
Control == /\ phase \in {"loaded", "repaired"}
           /\ report' = IF Diverged(midx) THEN "corrupted" ELSE "ok"
           /\ UNCHANGED <<files, sidx, schema, midx, phase, ndmg>>
Repair == /\ phase = "loaded"
          /\ midx' = [u \in DOMAIN files |-> files[u]]
          /\ phase' = "repaired" /\ report' = "none"
          /\ UNCHANGED <<files, sidx, schema, ndmg>>

Next == \/ \E u \in Slots : RmFile(u) \/ Unindex(u) \/ (\E v \in Vals : AddFile(u, v))
        \/ RmSchema \/ Load \/ Control \/ Repair
Spec == Init /\ [][Next]_vars

ControlIff       == report # "none" => ((report = "corrupted") <=> Diverged(midx))
RepairConverges  == phase = "repaired" => (DOMAIN midx = DOMAIN files /\ \A u \in DOMAIN files : midx[u] = files[u])
RepairKeepsFiles == [][Repair => files' = files]_vars
\* no false positive: an undamaged database reports nothing
NoFalsePositive  == (ndmg = 0 /\ report # "none") => report = "ok"
=============================================================================
