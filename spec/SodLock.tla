------------------------------- MODULE SodLock -------------------------------
(***************************************************************************)
(* C09 (and the lock part of C08): no combination of concurrent calls and  *)
(* the background flusher can make calls wait for each other forever.      *)
(*                                                                         *)
(* The programs are NOT written by hand: SodLockFacts.tla is generated at  *)
(* check time from the current source of the package (tools/extract): one  *)
(* program per exported entry point and per spawned goroutine, i.e. its    *)
(* lock operations in source order after inlining, with epsilon edges for  *)
(* blocks that may be skipped or repeated.                                 *)
(*                                                                         *)
(* The mutex semantics are Go's sync.RWMutex: a writer first ANNOUNCES     *)
(* itself; from then on new readers wait, even though the lock is only     *)
(* read-held; the writer gets the lock when the active readers are gone.   *)
(* This is what makes a read lock taken twice by one goroutine a deadlock  *)
(* as soon as a writer arrives in between.  sync.Mutex is the special case *)
(* without readers.                                                        *)
(*                                                                         *)
(* Thread 0 is the background flusher (it repeats its program), threads    *)
(* 1..T each execute one entry point chosen in Init; TLC explores every    *)
(* choice of entry points and every interleaving.                          *)
(***************************************************************************)
EXTENDS Integers, Sequences, FiniteSets, TLC, SodLockFacts

CONSTANTS T,          \* number of caller threads
          Entries,    \* names (strings) of the entry points the callers may choose
          Flusher,    \* name of the flusher program, or "" for none
          FlushRounds,\* how many times the flusher repeats its program
          MaxBack     \* how many times a thread may take a backward epsilon edge (loop repetition)

Prog(n) == IF n = "" THEN [ops |-> <<>>, eps |-> {}, spawn |-> {}] ELSE ProgramOf(n)      \* "" = no such thread

Threads == 0..T
Callers == 1..T

VARIABLES prog,   \* thread -> program name
          pc,     \* thread -> position in its program
          wr,     \* mutex -> thread holding the write lock, or -1
          pw,     \* mutex -> set of announced (pending) writers
          rd,     \* mutex -> [thread -> number of read locks held]
          back,   \* thread -> backward edges taken
          rounds  \* flusher rounds left

vars == <<prog, pc, wr, pw, rd, back, rounds>>

Ops(t)  == Prog(prog[t]).ops
Eps(t)  == Prog(prog[t]).eps
End(t)  == Len(Ops(t)) + 1
Active(t) == prog[t] # ""
Finished(t) == ~Active(t) \/ (pc[t] = End(t) /\ (t # 0 \/ rounds = 0))

Init == /\ prog \in [Threads -> Entries \cup {Flusher}]
        /\ prog[0] = Flusher
        /\ \A t \in Callers : prog[t] \in Entries
        /\ pc = [t \in Threads |-> 1]
        /\ wr = [m \in Mutexes |-> -1]
        /\ pw = [m \in Mutexes |-> {}]
        /\ rd = [m \in Mutexes |-> [t \in Threads |-> 0]]
        /\ back = [t \in Threads |-> 0]
        /\ rounds = FlushRounds

NoReaders(m) == \A u \in Threads : rd[m][u] = 0

Cur(t) == Ops(t)[pc[t]]

RLock(t) == /\ Cur(t).k = "rlock"
            /\ LET m == Cur(t).m IN
               /\ wr[m] = -1 /\ pw[m] = {}          \* readers queue behind an announced writer
               /\ rd' = [rd EXCEPT ![m][t] = @ + 1]
            /\ pc' = [pc EXCEPT ![t] = @ + 1]
            /\ UNCHANGED <<prog, wr, pw, back, rounds>>

RUnlock(t) == /\ Cur(t).k = "runlock"
              /\ rd' = [rd EXCEPT ![Cur(t).m][t] = @ - 1]
              /\ pc' = [pc EXCEPT ![t] = @ + 1]
              /\ UNCHANGED <<prog, wr, pw, back, rounds>>

Announce(t) == /\ Cur(t).k = "lock" /\ t \notin pw[Cur(t).m]
               /\ pw' = [pw EXCEPT ![Cur(t).m] = @ \cup {t}]
               /\ UNCHANGED <<prog, pc, wr, rd, back, rounds>>

Acquire(t) == /\ Cur(t).k = "lock" /\ t \in pw[Cur(t).m]
              /\ LET m == Cur(t).m IN
                 /\ wr[m] = -1 /\ NoReaders(m)
                 /\ wr' = [wr EXCEPT ![m] = t]
                 /\ pw' = [pw EXCEPT ![m] = @ \ {t}]
              /\ pc' = [pc EXCEPT ![t] = @ + 1]
              /\ UNCHANGED <<prog, rd, back, rounds>>

Unlock(t) == /\ Cur(t).k = "unlock"
             /\ wr' = [wr EXCEPT ![Cur(t).m] = -1]
             /\ pc' = [pc EXCEPT ![t] = @ + 1]
             /\ UNCHANGED <<prog, pw, rd, back, rounds>>

Jump(t) == \E ed \in Eps(t) :
             /\ ed[1] = pc[t]
             /\ \A m \in Mutexes : t \notin pw[m]        \* not in the middle of a Lock call
             /\ (ed[2] < ed[1]) => back[t] < MaxBack
             /\ pc' = [pc EXCEPT ![t] = ed[2]]
             /\ back' = [back EXCEPT ![t] = IF ed[2] < ed[1] THEN @ + 1 ELSE @]
             /\ UNCHANGED <<prog, wr, pw, rd, rounds>>

\* the flusher starts over
Again == /\ Active(0) /\ pc[0] = End(0) /\ rounds > 0
         /\ rounds' = rounds - 1 /\ pc' = [pc EXCEPT ![0] = 1] /\ back' = [back EXCEPT ![0] = 0]
         /\ UNCHANGED <<prog, wr, pw, rd>>

\* (race model only: the facts then also hold "acc" steps = the accesses to fields of the shared structures made
\* between two lock operations; for the lock model they are not extracted)
\* ("recv": a receive from a channel / a range over a channel - whoever feeds the channel decides when it returns)
Access(t) == /\ Cur(t).k \in {"acc", "recv"}
             /\ pc' = [pc EXCEPT ![t] = @ + 1]
             /\ UNCHANGED <<prog, wr, pw, rd, back, rounds>>

Step(t) == /\ Active(t)
           /\ \/ (pc[t] < End(t) /\ (RLock(t) \/ RUnlock(t) \/ Announce(t) \/ Acquire(t) \/ Unlock(t) \/ Access(t)))
              \/ Jump(t)

AllDone == \A t \in Threads : Finished(t)
Next == (\E t \in Threads : Step(t)) \/ Again \/ (AllDone /\ UNCHANGED vars)

Spec     == Init /\ [][Next]_vars
FairSpec == Spec /\ \A t \in Threads : WF_vars(Step(t)) /\ WF_vars(Again)

-----------------------------------------------------------------------------
(* Properties                                                               *)

TypeOK == /\ \A m \in Mutexes : wr[m] \in Threads \cup {-1}
          /\ \A m \in Mutexes, t \in Threads : rd[m][t] >= 0

\* no call waits for a channel while it holds a lock: the goroutine that feeds the channel may need the database
\* (a producer of InsertOrUpdateBulk that reads from the same handle), and every other call would wait with it
NoWaitUnderLock == \A t \in Threads : (Active(t) /\ pc[t] < End(t) /\ Cur(t).k = "recv") =>
                      \A m \in Mutexes : rd[m][t] = 0 /\ wr[m] # t

\* a thread that has returned holds nothing
Balanced == \A t \in Threads : (Active(t) /\ pc[t] = End(t)) => \A m \in Mutexes : rd[m][t] = 0 /\ wr[m] # t /\ t \notin pw[m]

\* who must move for t's next acquisition to become possible
AtAcq(t) == Active(t) /\ pc[t] < End(t) /\ Cur(t).k \in {"rlock", "lock"}
Blocked(t) ==
  AtAcq(t) /\ LET m == Cur(t).m IN
    IF Cur(t).k = "rlock" THEN wr[m] # -1 \/ pw[m] # {}
    ELSE t \in pw[m] /\ (wr[m] # -1 \/ ~NoReaders(m))
Needs(t) ==
  LET m == Cur(t).m IN
  IF Cur(t).k = "rlock" THEN (IF wr[m] # -1 THEN {wr[m]} ELSE {}) \cup pw[m]
  ELSE (IF wr[m] # -1 THEN {wr[m]} ELSE {}) \cup {u \in Threads : rd[m][u] > 0}
\* stuck forever: blocked on itself, or on somebody who is stuck (three rounds suffice for T <= 3)
Stuck0 == {t \in Threads : Blocked(t) /\ t \in Needs(t)}
Grow(S) == S \cup {t \in Threads : Blocked(t) /\ Needs(t) \cap S # {}}
Stuck == Grow(Grow(Grow(Stuck0)))
\* C09: no goroutine ever waits for itself or for a goroutine that waits forever
NoWaitCycle == Stuck = {}

\* a goroutine never re-enters a read lock it holds (the announced-writer deadlock), nor a write lock
NoReentry == \A t \in Threads : AtAcq(t) => LET m == Cur(t).m IN rd[m][t] = 0 /\ wr[m] # t

\* lock order: handle (db.l) < store < map < schema loading (db.sl)
Rank(m) == CASE m = "db.l" -> 1
             [] m \in {"db.cache", "db.asyncw"} -> 3
             [] m = "db.sl" -> 5          \* innermost: nothing is acquired while schema loading is serialised
             [] OTHER -> 4
Holds(t, m) == rd[m][t] > 0 \/ wr[m] = t
LockOrder == \A t \in Threads : AtAcq(t) => \A m \in Mutexes : Holds(t, m) => Rank(m) < Rank(Cur(t).m) \/ (Rank(m) = 3 /\ Rank(Cur(t).m) = 3 /\ m # Cur(t).m)

\* every call returns (under weak fairness of every goroutine)
Returns == \A t \in Callers : <>(pc[t] = End(t))

-----------------------------------------------------------------------------
(* The memory part of C08: data races.  With the race facts (tools/extract -race) TLC explores every program ALONE    *)
(* (T = 1, Entries = every program) and collects, for every access to a field of a shared structure, the locks held  *)
(* when it is made - exactly, for every path of the program.  Two accesses race when they touch the same location,   *)
(* one of them writes, and their lock sets are compatible: no mutex held by both unless both hold it for reading     *)
(* (sync.RWMutex; a sync.Mutex is always held "for writing").  Go's memory model gives no other ordering between     *)
(* two calls on a handle.  RaceSet is printed by the postcondition RaceReport; what it contains is compared with     *)
(* the justified baseline (init-before-publish writes, ...) and anything new must be confirmed by the race detector. *)
Held(t) == {<<m, "w">> : m \in {x \in Mutexes : wr[x] = t}} \cup {<<m, "r">> : m \in {x \in Mutexes : rd[x][t] > 0}}
Collect == \A t \in Threads : (Active(t) /\ pc[t] < End(t) /\ Cur(t).k = "acc") =>
              TLCSet(7, TLCGet(7) \cup {<<a[1], a[2], Held(t), a[3], prog[t]>> : a \in Cur(t).a})
Compatible(H1, H2) == \A x \in H1, y \in H2 : x[1] = y[1] => (x[2] = "r" /\ y[2] = "r")
RaceSet ==
  LET S == TLCGet(7)
      P == {<<x[1], x[2], x[3]>> : x \in S}                       \* kind, location, locks held
      R == {pq \in P \X P : pq[1][2] = pq[2][2] /\ pq[1][1] = "wr" /\ Compatible(pq[1][3], pq[2][3])}
      W(p) == CHOOSE x \in S : <<x[1], x[2], x[3]>> = p
  IN {[loc |-> pq[1][2], w_site |-> W(pq[1])[4], w_prog |-> W(pq[1])[5], w_held |-> pq[1][3],
       o_kind |-> pq[2][1], o_site |-> W(pq[2])[4], o_prog |-> W(pq[2])[5], o_held |-> pq[2][3]] : pq \in R}
RaceReport == PrintT(<<"RACESET", RaceSet>>)
=============================================================================
