------------------------------- MODULE SodLock -------------------------------
(***************************************************************************)
(* C09 (and the lock part of C08): no combination of concurrent calls and  *)
(* the background flusher can make calls wait for each other forever.      *)
(*                                                                         *)
(* The programs are NOT written by hand: SodLockFacts.tla is generated at  *)
(* check time from the current source of the package (tools/extract): one  *)
(* program per exported entry point and per spawned goroutine, i.e. its    *)
(* lock operations in source order after inlining, with epsilon edges for  *)
(* blocks that may be skipped or repeated.                                 *)
(*                                                                         *)
(* The mutex semantics are Go's sync.RWMutex: a writer first ANNOUNCES     *)
(* itself; from then on new readers wait, even though the lock is only     *)
(* read-held; the writer gets the lock when the active readers are gone.   *)
(* This is what makes a read lock taken twice by one goroutine a deadlock  *)
(* as soon as a writer arrives in between.  sync.Mutex is the special case *)
(* without readers.                                                        *)
(*                                                                         *)
(* Thread 0 is the background flusher (it repeats its program), threads    *)
(* 1..T each execute one entry point chosen in Init; TLC explores every    *)
(* choice of entry points and every interleaving.                          *)
(***************************************************************************)
EXTENDS Integers, Sequences, FiniteSets, TLC, SodLockFacts

CONSTANTS T,          \* number of caller threads
          Entries,    \* names (strings) of the entry points the callers may choose
          Flusher,    \* name of the flusher program, or "" for none
          FlushRounds,\* how many times the flusher repeats its program
          MaxBack     \* how many times a thread may take a backward epsilon edge (loop repetition)

Prog(n) == ProgramOf(n)

Threads == 0..T
Callers == 1..T

VARIABLES prog,   \* thread -> program name
          pc,     \* thread -> position in its program
          wr,     \* mutex -> thread holding the write lock, or -1
          pw,     \* mutex -> set of announced (pending) writers
          rd,     \* mutex -> [thread -> number of read locks held]
          back,   \* thread -> backward edges taken
          rounds  \* flusher rounds left

vars == <<prog, pc, wr, pw, rd, back, rounds>>

Ops(t)  == Prog(prog[t]).ops
Eps(t)  == Prog(prog[t]).eps
End(t)  == Len(Ops(t)) + 1
Active(t) == prog[t] # ""
Finished(t) == ~Active(t) \/ (pc[t] = End(t) /\ (t # 0 \/ rounds = 0))

Init == /\ prog \in [Threads -> Entries \cup {Flusher}]
        /\ prog[0] = Flusher
        /\ \A t \in Callers : prog[t] \in Entries
        /\ pc = [t \in Threads |-> 1]
        /\ wr = [m \in Mutexes |-> -1]
        /\ pw = [m \in Mutexes |-> {}]
        /\ rd = [m \in Mutexes |-> [t \in Threads |-> 0]]
        /\ back = [t \in Threads |-> 0]
        /\ rounds = FlushRounds

NoReaders(m) == \A u \in Threads : rd[m][u] = 0

Cur(t) == Ops(t)[pc[t]]

RLock(t) == /\ Cur(t).k = "rlock"
            /\ LET m == Cur(t).m IN
               /\ wr[m] = -1 /\ pw[m] = {}          \* readers queue behind an announced writer
               /\ rd' = [rd EXCEPT ![m][t] = @ + 1]
            /\ pc' = [pc EXCEPT ![t] = @ + 1]
            /\ UNCHANGED <<prog, wr, pw, back, rounds>>

RUnlock(t) == /\ Cur(t).k = "runlock"
              /\ rd' = [rd EXCEPT ![Cur(t).m][t] = @ - 1]
              /\ pc' = [pc EXCEPT ![t] = @ + 1]
              /\ UNCHANGED <<prog, wr, pw, back, rounds>>

Announce(t) == /\ Cur(t).k = "lock" /\ t \notin pw[Cur(t).m]
               /\ pw' = [pw EXCEPT ![Cur(t).m] = @ \cup {t}]
               /\ UNCHANGED <<prog, pc, wr, rd, back, rounds>>

Acquire(t) == /\ Cur(t).k = "lock" /\ t \in pw[Cur(t).m]
              /\ LET m == Cur(t).m IN
                 /\ wr[m] = -1 /\ NoReaders(m)
                 /\ wr' = [wr EXCEPT ![m] = t]
                 /\ pw' = [pw EXCEPT ![m] = @ \ {t}]
              /\ pc' = [pc EXCEPT ![t] = @ + 1]
              /\ UNCHANGED <<prog, rd, back, rounds>>

Unlock(t) == /\ Cur(t).k = "unlock"
             /\ wr' = [wr EXCEPT ![Cur(t).m] = -1]
             /\ pc' = [pc EXCEPT ![t] = @ + 1]
             /\ UNCHANGED <<prog, pw, rd, back, rounds>>

Jump(t) == \E ed \in Eps(t) :
             /\ ed[1] = pc[t]
             /\ \A m \in Mutexes : t \notin pw[m]        \* not in the middle of a Lock call
             /\ (ed[2] < ed[1]) => back[t] < MaxBack
             /\ pc' = [pc EXCEPT ![t] = ed[2]]
             /\ back' = [back EXCEPT ![t] = IF ed[2] < ed[1] THEN @ + 1 ELSE @]
             /\ UNCHANGED <<prog, wr, pw, rd, rounds>>

\* the flusher starts over
Again == /\ Active(0) /\ pc[0] = End(0) /\ rounds > 0
         /\ rounds' = rounds - 1 /\ pc' = [pc EXCEPT ![0] = 1] /\ back' = [back EXCEPT ![0] = 0]
         /\ UNCHANGED <<prog, wr, pw, rd>>

Step(t) == /\ Active(t)
           /\ \/ (pc[t] < End(t) /\ (RLock(t) \/ RUnlock(t) \/ Announce(t) \/ Acquire(t) \/ Unlock(t)))
              \/ Jump(t)

AllDone == \A t \in Threads : Finished(t)
Next == (\E t \in Threads : Step(t)) \/ Again \/ (AllDone /\ UNCHANGED vars)

Spec     == Init /\ [][Next]_vars
FairSpec == Spec /\ \A t \in Threads : WF_vars(Step(t)) /\ WF_vars(Again)

-----------------------------------------------------------------------------
(* Properties                                                               *)

TypeOK == /\ \A m \in Mutexes : wr[m] \in Threads \cup {-1}
          /\ \A m \in Mutexes, t \in Threads : rd[m][t] >= 0

\* a thread that has returned holds nothing
Balanced == \A t \in Threads : (Active(t) /\ pc[t] = End(t)) => \A m \in Mutexes : rd[m][t] = 0 /\ wr[m] # t /\ t \notin pw[m]

\* who must move for t's next acquisition to become possible
AtAcq(t) == Active(t) /\ pc[t] < End(t) /\ Cur(t).k \in {"rlock", "lock"}
Blocked(t) ==
  AtAcq(t) /\ LET m == Cur(t).m IN
    IF Cur(t).k = "rlock" THEN wr[m] # -1 \/ pw[m] # {}
    ELSE t \in pw[m] /\ (wr[m] # -1 \/ ~NoReaders(m))
Needs(t) ==
  LET m == Cur(t).m IN
  IF Cur(t).k = "rlock" THEN (IF wr[m] # -1 THEN {wr[m]} ELSE {}) \cup pw[m]
  ELSE (IF wr[m] # -1 THEN {wr[m]} ELSE {}) \cup {u \in Threads : rd[m][u] > 0}
\* stuck forever: blocked on itself, or on somebody who is stuck (three rounds suffice for T <= 3)
Stuck0 == {t \in Threads : Blocked(t) /\ t \in Needs(t)}
Grow(S) == S \cup {t \in Threads : Blocked(t) /\ Needs(t) \cap S # {}}
Stuck == Grow(Grow(Grow(Stuck0)))
\* C09: no goroutine ever waits for itself or for a goroutine that waits forever
NoWaitCycle == Stuck = {}

\* a goroutine never re-enters a read lock it holds (the announced-writer deadlock), nor a write lock
NoReentry == \A t \in Threads : AtAcq(t) => LET m == Cur(t).m IN rd[m][t] = 0 /\ wr[m] # t

\* lock order: handle (db.l) < store < map < schema loading (db.sl)
Rank(m) == CASE m = "db.l" -> 1
             [] m \in {"db.cache", "db.asyncw"} -> 3
             [] m = "db.sl" -> 5          \* innermost: nothing is acquired while schema loading is serialised
             [] OTHER -> 4
Holds(t, m) == rd[m][t] > 0 \/ wr[m] = t
LockOrder == \A t \in Threads : AtAcq(t) => \A m \in Mutexes : Holds(t, m) => Rank(m) < Rank(Cur(t).m) \/ (Rank(m) = 3 /\ Rank(Cur(t).m) = 3 /\ m # Cur(t).m)

\* every call returns (under weak fairness of every goroutine)
Returns == \A t \in Callers : <>(pc[t] = End(t))
=============================================================================
