------------------------------ MODULE SodFinal ------------------------------
(***************************************************************************)
(* Concurrent histories whose calls are not judged one by one (they        *)
(* contain Drop + Create, after which most calls legitimately fail until   *)
(* the collection exists again): what is judged is the state the handle is *)
(* in once every goroutine has returned, observed sequentially.  Whatever  *)
(* the interleaving, each call took effect entirely at one point between   *)
(* its invocation and its return (C08), so that state is a state of the    *)
(* sequential model: listing, counting and the directory agree.            *)
(*   FinalOK  All succeeds, Count = number of listed objects, no object    *)
(*            twice, Control has nothing to report (synchronous settings), *)
(*            the directory holds exactly one file per listed object       *)
(***************************************************************************)
EXTENDS Integers, Sequences, FiniteSets, TLC, Json

CONSTANTS TraceFile
Trace == ndJsonDeserialize(TraceFile)

VARIABLE l
vars == <<l>>
Init == l = 1
Next == l <= Len(Trace) /\ l' = l + 1
Spec == Init /\ [][Next]_vars
TraceAccepted == TLCGet("stats").diameter - 1 = Len(Trace)

E  == Trace[l - 1]
At == l > 1
NoDup(s) == \A i, j \in 1..Len(s) : i # j => s[i] # s[j]
FinalOK ==
  At => ((E.ev = "final" /\ "control" \in DOMAIN E) =>
          (/\ E.c = "ok" /\ E.count_c = "ok" /\ E.count = Len(E.items)
           /\ NoDup([i \in 1..Len(E.items) |-> E.items[i][1]])
           /\ E.control = "ok"
           /\ E.nfiles = Len(E.items)))
NoPanic == At => E.ev \notin {"panic", "hang"}
=============================================================================
