------------------------------- MODULE SodDisk -------------------------------
(***************************************************************************)
(* C05 at design level: every mutating call is a SEQUENCE OF FILE-SYSTEM   *)
(* STEPS; the process may die between any two of them (completed system    *)
(* calls persist in order).  What a fresh handle then finds is judged by   *)
(* CrashSafe in EVERY reachable state, i.e. at every crash point of every  *)
(* history of the bounded model:                                           *)
(*   - no object file or schema is unreadable,                             *)
(*   - every object file holds the value before or after the interrupted   *)
(*     call, acknowledged objects the call does not touch are intact,      *)
(*   - the first load / Control reports corruption (indexed identifiers    *)
(*     differ from file identifiers) or index and files agree,             *)
(*   - after Repair (drop entries without file, rebuild every other entry  *)
(*     from its file) they agree.                                          *)
(*                                                                         *)
(* The step sequences are those of the code as it is now: an object or     *)
(* the schema is written to a temporary file (ignored by the directory     *)
(* listing) and renamed into place; the object files of a call are         *)
(* written first, the schema (which embeds the whole index) last.          *)
(*                                                                         *)
(* Deviations:  InPlaceWrite - the pinned tree truncated and rewrote files *)
(* in place (fixed, F12);  StaleIndex - the known finding K01: between the *)
(* rename of an UPDATED object and the commit of the schema the index      *)
(* holds the old indexed values of that object and Control cannot see it   *)
(* (Repair, once called, heals it).  With Dev = {} TLC must find that      *)
(* state; with Dev = {"StaleIndex"} CrashSafe \/ StaleShape is an          *)
(* invariant, i.e. every violating crash point of the bounded design has   *)
(* the recorded shape and no other.                                        *)
(***************************************************************************)
EXTENDS Integers, Sequences, FiniteSets, TLC

CONSTANTS Slots, KVals, AVals, MaxOps, Dev

VARIABLES files,   \* slot -|-> object, or Torn
          dix,     \* slot -|-> indexed values: the index inside the committed schema.json
          dok,     \* schema.json is readable
          astore,  \* abstract map after the last ACKNOWLEDGED call
          todo,    \* remaining file-system steps of the call in progress
          post,    \* abstract map the call in progress will acknowledge
          nops

vars == <<files, dix, dok, astore, todo, post, nops>>

Objects == [K : KVals, A : AVals]
Empty == [x \in {} |-> 0]
Torn  == [K |-> -1, A |-> -1]
Ix(o) == o                                  \* both fields are indexed in this model
Upd(S, u, o) == [x \in DOMAIN S \cup {u} |-> IF x = u THEN o ELSE S[x]]
Rem(S, U)    == [x \in DOMAIN S \ U |-> S[x]]
IxOf(S)      == [u \in DOMAIN S |-> Ix(S[u])]

Init == /\ files = Empty /\ dix = Empty /\ dok = TRUE /\ astore = Empty
        /\ todo = <<>> /\ post = Empty /\ nops = 0

\* the file-system steps of one object write / of the schema commit
ObjSteps(u, o) == IF "InPlaceWrite" \in Dev THEN <<[k |-> "truncobj", u |-> u], [k |-> "writeobj", u |-> u, o |-> o]>>
                  ELSE <<[k |-> "tmp"], [k |-> "renameobj", u |-> u, o |-> o]>>
SchSteps(ix)   == IF "InPlaceWrite" \in Dev THEN <<[k |-> "truncsch"], [k |-> "writesch", ix |-> ix]>>
                  ELSE <<[k |-> "tmp"], [k |-> "renamesch", ix |-> ix]>>

Conflict(S, u, o) == \E w \in DOMAIN S : w # u /\ S[w].K = o.K
Idle == todo = <<>>

\* InsertOrUpdate(u, o): object file, then schema
BeginPut(u, o) ==
  /\ Idle /\ nops < MaxOps /\ ~Conflict(astore, u, o)
  /\ post' = Upd(astore, u, o)
  /\ todo' = ObjSteps(u, o) \o SchSteps(IxOf(Upd(astore, u, o)))
  /\ nops' = nops + 1 /\ UNCHANGED <<files, dix, dok, astore>>
\* InsertOrUpdateMany of two objects: both object files, then one schema commit
BeginMany(u, o, v, p) ==
  /\ Idle /\ nops < MaxOps /\ u # v /\ o.K # p.K /\ ~Conflict(Rem(astore, {v}), u, o) /\ ~Conflict(Rem(astore, {u}), v, p)
  /\ post' = Upd(Upd(astore, u, o), v, p)
  /\ todo' = ObjSteps(u, o) \o ObjSteps(v, p) \o SchSteps(IxOf(Upd(Upd(astore, u, o), v, p)))
  /\ nops' = nops + 1 /\ UNCHANGED <<files, dix, dok, astore>>
\* Delete(u): remove the file, then schema
BeginDel(u) ==
  /\ Idle /\ nops < MaxOps /\ u \in DOMAIN astore
  /\ post' = Rem(astore, {u})
  /\ todo' = <<[k |-> "remove", u |-> u]>> \o SchSteps(IxOf(Rem(astore, {u})))
  /\ nops' = nops + 1 /\ UNCHANGED <<files, dix, dok, astore>>

\* one completed system call
Step ==
  /\ ~Idle
  /\ LET st == Head(todo) IN
     /\ files' = CASE st.k \in {"renameobj", "writeobj"} -> Upd(files, st.u, st.o)
                   [] st.k = "truncobj" -> Upd(files, st.u, Torn)
                   [] st.k = "remove"   -> Rem(files, {st.u})
                   [] OTHER             -> files
     /\ dix' = IF st.k \in {"renamesch", "writesch"} THEN st.ix ELSE dix
     /\ dok' = IF st.k = "truncsch" THEN FALSE ELSE IF st.k = "writesch" THEN TRUE ELSE dok
  /\ todo' = Tail(todo)
  \* the call returns (is acknowledged) when its last step is done
  /\ astore' = IF Len(todo) = 1 THEN post ELSE astore
  /\ UNCHANGED <<post, nops>>

Next == \/ \E u \in Slots, o \in Objects : BeginPut(u, o)
        \/ \E u, v \in Slots, o, p \in Objects : BeginMany(u, o, v, p)
        \/ \E u \in Slots : BeginDel(u)
        \/ Step
Spec == Init /\ [][Next]_vars

-----------------------------------------------------------------------------
(* What a fresh handle finds if the process dies NOW                        *)

Sm == astore                                   \* before the call in progress
Sp == IF Idle THEN astore ELSE post             \* after it
Readable  == dok /\ \A u \in DOMAIN files : files[u] # Torn
OldOrNew  == \A u \in DOMAIN files : (u \in DOMAIN Sm /\ files[u] = Sm[u]) \/ (u \in DOMAIN Sp /\ files[u] = Sp[u])
Untouched == \A u \in DOMAIN Sm : (u \in DOMAIN Sp /\ Sm[u] = Sp[u]) => (u \in DOMAIN files /\ files[u] = Sm[u])
NoLoss    == \A u \in DOMAIN Sm \cap DOMAIN Sp : u \in DOMAIN files
Detected  == DOMAIN dix # DOMAIN files          \* Control / first load: identifiers only
Agree(ix) == DOMAIN ix = DOMAIN files /\ \A u \in DOMAIN files : ix[u] = Ix(files[u])
Repaired  == [u \in DOMAIN files |-> Ix(files[u])]      \* Repair rebuilds every entry from its file (F25)

CrashSafe == /\ Readable /\ OldOrNew /\ Untouched /\ NoLoss
             /\ Detected \/ Agree(dix)
             /\ Agree(Repaired)

\* the recorded finding, and nothing else: files are fine, identifiers agree or are detected, and every
\* disagreement between index and files is the OLD indexed value of an object the interrupted call rewrote
StaleShape ==
  /\ "StaleIndex" \in Dev
  /\ Readable /\ OldOrNew /\ Untouched /\ NoLoss /\ Agree(Repaired)
  /\ \A u \in DOMAIN files \cap DOMAIN dix :
        dix[u] # Ix(files[u]) => (u \in DOMAIN Sm /\ u \in DOMAIN Sp /\ files[u] = Sp[u] /\ dix[u] = Ix(Sm[u]) /\ Sm[u] # Sp[u])

CrashSafeOrKnown == CrashSafe \/ StaleShape
\* a quiescent database (no call in progress) is always consistent
QuiescentOK == Idle => (files = astore /\ dix = IxOf(astore) /\ dok)
=============================================================================
