---------------------------- MODULE SodDiskAsync ----------------------------
(***************************************************************************)
(* C05 at design level for ASYNCHRONOUS writes (the synchronous protocol   *)
(* is SodDisk).  An accepted write only changes memory: the index, the     *)
(* cache and the pending store.  The file system is touched by             *)
(*   Delete          remove the object file at once, then commit schema    *)
(*   Commit          write the schema (= the whole in-memory index)        *)
(*   FlushAll        write the pending objects ONE FILE AT A TIME, in the   *)
(*                   iteration order of a map (any order)                  *)
(*   FlushAllAndCommit / Close / the flusher:  FlushAll, then Commit       *)
(* each file through a temporary file renamed into place.  The process may *)
(* die between any two file-system steps; every reachable state is a crash *)
(* point and is judged as a fresh handle would find it:                    *)
(*   - every file readable and entirely ONE accepted version of its object *)
(*   - the first load / Control report corruption (identifier sets differ) *)
(*     or index and files agree                                            *)
(*   - Repair (drop entries without file, rebuild every entry from its     *)
(*     file) succeeds and index and files then agree                       *)
(*                                                                         *)
(* "Every acknowledged call is reflected" is promised for synchronous mode *)
(* only and is not demanded here.                                          *)
(*                                                                         *)
(* With Dev = {} TLC finds the two known findings; with both deviations    *)
(* CrashSafe \/ a recorded shape is an invariant, i.e. the bounded design  *)
(* has no other kind of bad crash point:                                   *)
(*   AsyncStaleIndex   identifiers agree, the index describes ANOTHER      *)
(*                     accepted version of an object than its file (K03)   *)
(*   AsyncUniqueClash  two object files hold the same unique value: a      *)
(*                     value moved from A to B, B flushed, A not yet (K04) *)
(***************************************************************************)
EXTENDS Integers, Sequences, FiniteSets, TLC

CONSTANTS Slots, KVals, AVals, MaxOps, Dev

VARIABLES files,   \* slot -|-> object                      object files
          dix,     \* slot -|-> object                      index inside the committed schema.json (both fields indexed)
          mem,     \* slot -|-> object                      memory: the accepted state (index, cache)
          pend,    \* set of slots whose accepted version is not on disk yet
          vers,    \* slot -> set of versions ever accepted for it
          todo,    \* remaining file-system steps of the call in progress
          nops

vars == <<files, dix, mem, pend, vers, todo, nops>>

Objects == [K : KVals, A : AVals]
Empty == [x \in {} |-> 0]
Upd(S, u, o) == [x \in DOMAIN S \cup {u} |-> IF x = u THEN o ELSE S[x]]
Rem(S, U)    == [x \in DOMAIN S \ U |-> S[x]]

Init == /\ files = Empty /\ dix = Empty /\ mem = Empty /\ pend = {} /\ vers = [u \in Slots |-> {}]
        /\ todo = <<>> /\ nops = 0

Idle == todo = <<>>
Conflict(S, u, o) == \E w \in DOMAIN S : w # u /\ S[w].K = o.K

\* an accepted write: memory only
Put(u, o) ==
  /\ Idle /\ nops < MaxOps /\ ~Conflict(mem, u, o) /\ (u \in DOMAIN mem => mem[u] # o)
  /\ mem' = Upd(mem, u, o) /\ pend' = pend \cup {u} /\ vers' = [vers EXCEPT ![u] = @ \cup {o}]
  /\ nops' = nops + 1 /\ UNCHANGED <<files, dix, todo>>

SchSteps(ix) == <<[k |-> "tmp"], [k |-> "sch", ix |-> ix]>>
ObjSteps(u, o) == <<[k |-> "tmp"], [k |-> "obj", u |-> u, o |-> o]>>

\* Delete: the pending write is dropped, the file removed at once, the schema committed
BeginDel(u) ==
  /\ Idle /\ nops < MaxOps /\ u \in DOMAIN mem
  /\ mem' = Rem(mem, {u}) /\ pend' = pend \ {u}
  /\ todo' = (IF u \in DOMAIN files THEN <<[k |-> "rm", u |-> u]>> ELSE <<>>) \o SchSteps(Rem(mem, {u}))
  /\ nops' = nops + 1 /\ UNCHANGED <<files, dix, vers>>

BeginCommit ==
  /\ Idle /\ nops < MaxOps /\ todo' = SchSteps(mem) /\ nops' = nops + 1 /\ UNCHANGED <<files, dix, mem, pend, vers>>

\* every order in which the pending objects may be written (the iteration order of a Go map)
Orders(S) == {q \in [1..Cardinality(S) -> S] : \A i, j \in 1..Cardinality(S) : i # j => q[i] # q[j]}
RECURSIVE Concat(_, _)
Concat(q, n) == IF n = 0 THEN <<>> ELSE Concat(q, n - 1) \o ObjSteps(q[n], mem[q[n]])

BeginFlush(commit) ==
  /\ Idle /\ nops < MaxOps /\ (pend # {} \/ commit)
  /\ \E q \in Orders(pend) : todo' = Concat(q, Cardinality(pend)) \o (IF commit THEN SchSteps(mem) ELSE <<>>)
  /\ nops' = nops + 1 /\ UNCHANGED <<files, dix, mem, pend, vers>>

Step ==
  /\ ~Idle
  /\ LET st == Head(todo) IN
     /\ files' = CASE st.k = "obj" -> Upd(files, st.u, st.o) [] st.k = "rm" -> Rem(files, {st.u}) [] OTHER -> files
     /\ dix'   = IF st.k = "sch" THEN st.ix ELSE dix
     /\ pend'  = IF st.k = "obj" THEN pend \ {st.u} ELSE pend
  /\ todo' = Tail(todo)
  /\ UNCHANGED <<mem, vers, nops>>

Next == \/ \E u \in Slots, o \in Objects : Put(u, o)
        \/ \E u \in Slots : BeginDel(u)
        \/ BeginCommit
        \/ \E c \in BOOLEAN : BeginFlush(c)
        \/ Step
Spec == Init /\ [][Next]_vars

-----------------------------------------------------------------------------
(* What a fresh handle finds if the process dies NOW                        *)
OneVersion == \A u \in DOMAIN files : files[u] \in vers[u]
Detected   == DOMAIN dix # DOMAIN files
Agree(ix)  == DOMAIN ix = DOMAIN files /\ \A u \in DOMAIN files : ix[u] = files[u]
Clash      == \E u, v \in DOMAIN files : u # v /\ files[u].K = files[v].K
\* Repair rebuilds every entry from its file: it succeeds iff the files do not clash on the unique field
RepairOK   == ~Clash

CrashSafe == OneVersion /\ (Detected \/ Agree(dix)) /\ RepairOK

StaleShape ==
  /\ "AsyncStaleIndex" \in Dev /\ OneVersion /\ RepairOK
  /\ ~Detected /\ \A u \in DOMAIN files : dix[u] \in vers[u]           \* another ACCEPTED version, nothing else
ClashShape ==
  /\ "AsyncUniqueClash" \in Dev /\ OneVersion /\ Clash
  /\ Detected \/ \A u \in DOMAIN files : dix[u] \in vers[u]

CrashSafeOrKnown == CrashSafe \/ StaleShape \/ ClashShape

\* once everything is flushed and committed, memory, files and index are one
QuiescentOK == (Idle /\ pend = {} /\ dix = mem) => (files = mem)
=============================================================================
