------------------------------ MODULE SodTrace ------------------------------
(***************************************************************************)
(* Trace specification for sequential executions of the real sod package.  *)
(*                                                                         *)
(* A trace is an ndjson file written by the harness (one event per line,   *)
(* `reset` events separate independent tests).  The step relation is       *)
(* deterministic: the next specification state is computed from each       *)
(* event's ARGUMENTS and ACKNOWLEDGED OUTCOME only (SodAbs semantics: an    *)
(* accepted write replaces the object, an accepted delete removes it).     *)
(* Everything the implementation REPORTED (reads, searches, counts, error  *)
(* classes, hook calls) is compared with what the specification allows in  *)
(* one invariant per property, Conf_Cxx, so a rejected trace names the     *)
(* property it breaks and the state keeps following what was acknowledged. *)
(*                                                                         *)
(* Values are integer codes (see harness/universe.go): plain fields carry  *)
(* the rank in a typed universe, case-constrained fields carry             *)
(* class*CaseMul + variant with variant 0 the canonical spelling.          *)
(***************************************************************************)
EXTENDS Integers, Sequences, FiniteSets, TLC, Json, SodCore

CONSTANTS TraceFile,   \* path of the ndjson trace
          Dev          \* set of enabled, named deviations (known findings); {} by default

Trace == ndJsonDeserialize(TraceFile)

VARIABLES l,        \* index of the next event
          store,    \* slot -> record of codes: the abstract map rebuilt from acknowledged writes
          pstore,   \* store before the last event
          hdr,      \* header of the current test (schema, cfg, transform / validity tables)
          lastObs,  \* index of the most recent obs event of this test (0 = none)
          reopened, \* a reopen happened since lastObs and no write since
          hands,    \* handle -> [q, at, store]  (evaluated, not yet collected searches)
          wpre,     \* store before the most recent write call (the pre-state of crash / fault observations)
          wev,      \* index of the most recent write event
          unfl,     \* identifiers whose accepted write may still be pending (async mode)
          slept,    \* flusher poll periods elapsed since the last flush that the flusher must have done
          due       \* the last event was a tick at which the flusher had to flush

vars == <<l, store, pstore, hdr, lastObs, reopened, hands, wpre, wev, unfl, slept, due>>

Empty == [x \in {} |-> 0]
NoHdr == [ev |-> "none"]

Init == /\ l = 1 /\ store = Empty /\ pstore = Empty /\ hdr = NoHdr
        /\ lastObs = 0 /\ reopened = FALSE /\ hands = Empty /\ wpre = Empty /\ wev = 0 /\ unfl = {} /\ slept = 0 /\ due = FALSE

-----------------------------------------------------------------------------
(* Schema helpers, from the header of the current test                     *)

Fields       == DOMAIN hdr.schema
DataFields   == Fields                       \* "pl" is carried besides the schema fields
UniqueF      == {f \in Fields : hdr.schema[f].uq = 1}
IndexedF     == {f \in Fields : hdr.schema[f].ix = 1}
CaseF        == {f \in Fields : hdr.schema[f].cn # "none"}
\* canonical code of a value of a case-constrained field: variant 0 of its class - or, for a plain string field that a
\* custom schema puts under a case constraint, the table carried by the header
CanonV(f, c) == IF "canon" \in DOMAIN hdr /\ f \in DOMAIN hdr.canon THEN hdr.canon[f][c + 1]
                ELSE IF f \in CaseF THEN CanonCode(c) ELSE c

\* the driver's own Transform hook, as a table  field -> <<from, to>> pairs
UserT(o) == [f \in DOMAIN o |->
               IF f \in DOMAIN hdr.tr /\ \E i \in 1..Len(hdr.tr[f]) : hdr.tr[f][i][1] = o[f]
               THEN LET i == CHOOSE i \in 1..Len(hdr.tr[f]) : hdr.tr[f][i][1] = o[f] IN hdr.tr[f][i][2]
               ELSE o[f]]
Canon(o)  == [f \in DOMAIN o |-> CanonV(f, o[f])]
Stored(o) == Canon(UserT(o))          \* Transform, then the schema's case transforms
Valid(o)  == \A f \in DOMAIN hdr.inv : \A i \in 1..Len(hdr.inv[f]) : o[f] # hdr.inv[f][i]

Conflict(S, u, o) == \E f \in UniqueF, w \in DOMAIN S : w # u /\ S[w][f] = o[f]
UniqueInv(S)      == \A f \in UniqueF, a, b \in DOMAIN S : a # b => S[a][f] # S[b][f]

-----------------------------------------------------------------------------
(* Queries: a left-deep chain <<conn, field, op, probe>>                    *)

CmpSet(S, c) == {u \in DOMAIN S : Sat(S[u][c[2]], c[3], IF c[3] \in {"~=", "~!"} THEN c[4] ELSE CanonV(c[2], c[4]))}

RECURSIVE MatchesQ(_, _)
MatchesQ(S, q) ==
  IF Len(q) = 1 THEN CmpSet(S, q[1])
  ELSE LET c == q[Len(q)]
           r == MatchesQ(S, SubSeq(q, 1, Len(q) - 1))
       IN IF c[1] \in {"and", "&&", "AND", "And"} THEN r \cap CmpSet(S, c) ELSE r \cup CmpSet(S, c)

WellFormedQ(q) == \A i \in 1..Len(q) : q[i][3] # "~!"

-----------------------------------------------------------------------------
(* The step relation                                                        *)

Upd(S, u, o) == [x \in DOMAIN S \cup {u} |-> IF x = u THEN o ELSE S[x]]
Rem(S, U)    == [x \in DOMAIN S \ U |-> S[x]]

\* a batch is applied entry by entry, in order; entries of another type carry no object
RECURSIVE ApplyBatch(_, _, _)
ApplyBatch(S, b, n) ==
  IF n = 0 THEN S
  ELSE LET S1 == ApplyBatch(S, b, n - 1)
       IN IF "other" \in DOMAIN b[n] THEN S1 ELSE Upd(S1, b[n].slot, b[n].after)

e == Trace[l]

\* the identifiers a write call touched even when the value did not change (a re-save is written again)
Touched == CASE e.ev = "put"  -> IF e.c = "ok" THEN {e.slot} ELSE {}
             [] e.ev = "many" -> {e.batch[i].slot : i \in {j \in 1..e.n : "o" \in DOMAIN e.batch[j]}}
             [] OTHER         -> {}


Common == /\ l <= Len(Trace)
          /\ l' = l + 1
          /\ pstore' = store

\* Repair touches no object file (recorded file-system calls of Repair: none of the mutating ones is aimed at an object file)
RepairClean(E_) == "repair_mut" \in DOMAIN E_ => E_.repair_mut = 0

\* every evaluated search remembers which identifiers were deleted since its evaluation
Write(S) == /\ store' = S
            /\ reopened' = FALSE
            /\ hands' = [h \in DOMAIN hands |-> [hands[h] EXCEPT !.gone = @ \cup (DOMAIN store \ DOMAIN S)]]
            /\ wpre' = store /\ wev' = l
            \* pending writes: what was (re)written may be pending, what was deleted is not
            /\ unfl' = IF hdr.ev = "hdr" /\ hdr.cfg.async
                       THEN (unfl \cup {u \in DOMAIN S : u \notin DOMAIN store \/ S[u] # store[u]} \cup Touched) \cap DOMAIN S
                       ELSE {}
            /\ due' = FALSE
            /\ UNCHANGED <<hdr, lastObs, slept>>

Pass == UNCHANGED <<store, hdr, lastObs, reopened, hands, wpre, wev, unfl, slept>> /\ due' = FALSE

Reset == /\ e.ev = "reset" /\ Common
         /\ store' = Empty /\ hdr' = NoHdr /\ lastObs' = 0 /\ reopened' = FALSE /\ hands' = Empty /\ wpre' = Empty /\ wev' = 0 /\ unfl' = {} /\ slept' = 0 /\ due' = FALSE

Hdr == /\ e.ev = "hdr" /\ Common
       /\ hdr' = e /\ UNCHANGED <<store, lastObs, reopened, hands, wpre, wev, unfl, slept>> /\ due' = FALSE

Put == /\ e.ev = "put" /\ Common
       /\ Write(IF e.c = "ok" THEN Upd(store, e.slot, e.after) ELSE store)

Many == /\ e.ev = "many" /\ Common
        /\ Write(ApplyBatch(store, e.batch, e.n))

Del == /\ e.ev = "del" /\ Common
       /\ Write(IF e.c = "ok" THEN Rem(store, {e.slot}) ELSE store)

DelAll == /\ e.ev = "delall" /\ Common
          /\ Write(IF e.c = "ok" THEN Empty ELSE store)

DelSearch == /\ e.ev = "delsearch" /\ Common
             /\ Write(IF e.c = "ok" /\ WellFormedQ(e.q) THEN Rem(store, MatchesQ(store, e.q)) ELSE store)

Reopen == /\ e.ev = "reopen" /\ Common
          /\ reopened' = TRUE
          /\ unfl' = IF e.close THEN {} ELSE unfl
          /\ slept' = 0 /\ due' = FALSE
          /\ UNCHANGED <<store, hdr, lastObs, hands, wpre, wev>>

Obs == /\ e.ev = "obs" /\ Common
       /\ lastObs' = l /\ reopened' = FALSE
       /\ UNCHANGED <<store, hdr, hands, wpre, wev, unfl, slept>> /\ due' = FALSE

Eval == /\ e.ev = "eval" /\ Common
        /\ hands' = [h \in DOMAIN hands \cup {e.h} |-> IF h = e.h THEN [q |-> e.q, c |-> e.c, len |-> e.len, S |-> store, gone |-> {}] ELSE hands[h]]
        /\ UNCHANGED <<store, hdr, lastObs, reopened, wpre, wev, unfl, slept>> /\ due' = FALSE

\* a kept search value refined (And / Or / Operation) into a new one.  The new one is judged like an evaluated chain when
\* nothing was written since its parent was evaluated (otherwise it mixes two states of the collection: not judged);
\* the parent stays what it was - that is judged when it is collected later (Conf_C20, Conf_C13)
Derive == /\ e.ev = "derive" /\ Common
          /\ LET fresh == e.from \in DOMAIN hands /\ hands[e.from].c = "ok" /\ hands[e.from].S = store /\ hands[e.from].gone = {}
             IN hands' = [h \in DOMAIN hands \cup {e.h} |->
                            IF h = e.h THEN [q |-> e.q, c |-> IF fresh THEN e.c ELSE "unjudged", len |-> e.len, S |-> store, gone |-> {}]
                            ELSE hands[h]]
          /\ UNCHANGED <<store, hdr, lastObs, reopened, wpre, wev, unfl, slept>> /\ due' = FALSE

Collect == /\ e.ev = "collect" /\ Common /\ Pass

Other == /\ e.ev \in {"end", "panic", "hang", "mutate", "args", "note", "crash", "fault", "corrupt", "shape", "names", "xput", "xdel", "xflush"} /\ Common /\ Pass

\* FlushAll / FlushAllAndCommit / Commit
FlushEv == /\ e.ev = "flush" /\ Common
           /\ unfl' = IF e.c = "ok" /\ e.what \in {"all", "allcommit"} THEN {} ELSE unfl
           /\ due' = FALSE
           /\ UNCHANGED <<store, hdr, lastObs, reopened, hands, wpre, wev, slept>>

\* Drop() then Create on the same handle: nothing of the dropped database is left
DropEv == /\ e.ev = "drop" /\ Common
          /\ store' = Empty /\ reopened' = FALSE
          /\ hands' = [h \in DOMAIN hands |-> [hands[h] EXCEPT !.gone = @ \cup DOMAIN store]]
          /\ wpre' = store /\ wev' = l /\ unfl' = {} /\ due' = FALSE /\ slept' = 0
          /\ hdr' = IF e.cc = "ok" THEN [hdr EXCEPT !.cfg = e.cfg] ELSE hdr
          /\ UNCHANGED lastObs

\* Repair on a live handle rebuilds the index entries: a search value evaluated before may have lost what it refers to
\* (collecting it then fails, or leaves objects out) - it never comes to denote other objects (Conf_C20)
RepairEv == /\ e.ev = "repair" /\ Common
            /\ hands' = [h \in DOMAIN hands |-> [hands[h] EXCEPT !.gone = @ \cup DOMAIN store]]
            /\ due' = FALSE
            /\ UNCHANGED <<store, hdr, lastObs, reopened, wpre, wev, unfl, slept>>

\* Flush(o) / FlushAndCommit(o): the accepted version of one object is on disk afterwards
FlushOneEv == /\ e.ev = "flushone" /\ Common
              /\ unfl' = IF e.c = "ok" THEN unfl \ {e.slot} ELSE unfl
              /\ due' = FALSE
              /\ UNCHANGED <<store, hdr, lastObs, reopened, hands, wpre, wev, slept>>

\* one poll period of the background flusher elapses with no foreground call.  The flusher wakes
\* up, and flushes if the pending count has reached the threshold or the timeout has elapsed.
\* (It may also have flushed earlier: only the obligation is tracked.)
TmoTicks == hdr.cfg.tmo_ms \div 100
TickEv == /\ e.ev = "tick" /\ Common
          /\ LET d == hdr.cfg.async /\ (Cardinality(unfl) >= hdr.cfg.thr \/ slept + 1 >= TmoTicks)
             IN /\ due' = d
                /\ unfl' = IF d THEN {} ELSE unfl
                /\ slept' = IF d THEN 0 ELSE slept + 1
          /\ UNCHANGED <<store, hdr, lastObs, reopened, hands, wpre, wev>>

\* Create on the existing collection with other cache / async settings (C17): data is untouched;
\* leaving asynchronous mode must not strand pending writes
SwitchEv == /\ e.ev = "switch" /\ Common
            /\ hdr' = IF e.c = "ok" THEN [hdr EXCEPT !.cfg = e.cfg] ELSE hdr
            /\ slept' = 0 /\ due' = FALSE
            /\ UNCHANGED <<store, lastObs, reopened, hands, wpre, wev, unfl>>

\* environment: files removed / added, index entries removed, schema removed while no handle is open;
\* the abstract map follows the FILES (that is what Repair must converge to)
AfterDamage(S, d) ==
  LET kept == [x \in DOMAIN S \ {d.rm[i] : i \in 1..Len(d.rm)} |-> S[x]]
  IN [x \in DOMAIN kept \cup {d.add[i][1] : i \in 1..Len(d.add)} |->
        IF x \in DOMAIN kept THEN kept[x] ELSE d.add[CHOOSE i \in 1..Len(d.add) : d.add[i][1] = x][2]]
\* (the handle was closed before the damage: nothing is pending afterwards, and a new handle's timer starts from zero)
DamageEv == /\ e.ev = "damage" /\ Common
            /\ LET S == AfterDamage(store, e) IN
               /\ store' = S /\ reopened' = FALSE
               /\ hands' = [h \in DOMAIN hands |-> [hands[h] EXCEPT !.gone = @ \cup (DOMAIN store \ DOMAIN S)]]
               /\ wpre' = store /\ wev' = l
            /\ unfl' = {} /\ slept' = 0 /\ due' = FALSE
            /\ UNCHANGED <<hdr, lastObs>>

Next == l <= Len(Trace) /\ (Reset \/ Hdr \/ Put \/ Many \/ Del \/ DelAll \/ DelSearch \/ Reopen \/ Obs \/ Eval \/ Derive \/ Collect \/ Other \/ DamageEv \/ FlushEv \/ FlushOneEv \/ DropEv \/ RepairEv \/ TickEv \/ SwitchEv)

Spec == Init /\ [][Next]_vars

TraceAccepted == TLCGet("stats").diameter - 1 = Len(Trace)

-----------------------------------------------------------------------------
(* Observations.  E is the event just consumed.                             *)

E  == Trace[l - 1]
At == l > 1

Seq2Set(s) == {s[i] : i \in 1..Len(s)}
NoDup(s)   == \A i, j \in 1..Len(s) : i # j => s[i] # s[j]

\* the All() listing of an obs event as a function slot -> rec id (unknown uuids are slot 0)
AllSlots(o) == [i \in 1..Len(o.all) |-> o.all[i][1]]
AllRec(o, s) == LET i == CHOOSE i \in 1..Len(o.all) : o.all[i][1] = s IN o.recs[o.all[i][2]]
AllMap(o)   == [s \in Seq2Set(AllSlots(o)) |-> AllRec(o, s)]

\* C01: every read path reports exactly the abstract map S
ReadsOK(o, S) ==
  /\ o.all_c = "ok" /\ o.count_c = "ok"
  /\ NoDup(AllSlots(o))
  /\ Seq2Set(AllSlots(o)) = DOMAIN S
  /\ \A i \in 1..Len(o.all) : o.all[i][1] \in DOMAIN S => o.recs[o.all[i][2]] = S[o.all[i][1]]
  /\ o.count = Cardinality(DOMAIN S)
  /\ "all2" \in DOMAIN o => (o.all2_c = "ok" /\ o.all2 = o.all)        \* AssignAll: the same listing, same contents
  /\ \A i \in 1..Len(o.get) :
       LET g == o.get[i] IN
       IF g.slot \in DOMAIN S
       THEN /\ \A k \in {"g1", "gu", "g2", "gd", "gv"} \cap DOMAIN g : /\ g[k][1] = "ok" /\ o.recs[g[k][2]] = S[g.slot] /\ g[k][3] = g.slot
            /\ g.ex[1] = "ok" /\ g.ex[2] = TRUE
       ELSE /\ \A k \in {"g1", "gu", "g2", "gd", "gv"} \cap DOMAIN g : g[k][1] # "ok"
            /\ g.ex[2] = FALSE

\* C02: every query of the sweep denotes exactly the matching objects of the
\* listing A (slot -> record) it is judged against
QueryOK(qe, A, o) ==
  LET q == qe[1]  c == qe[2]  items == qe[3]  ln == qe[4]
      slots == [i \in 1..Len(items) |-> items[i][1]]
  IN IF WellFormedQ(q)
     THEN /\ c = "ok"
          /\ NoDup(slots)
          /\ Seq2Set(slots) = MatchesQ(A, q)
          /\ ln = Len(items)
          /\ \A i \in 1..Len(items) : items[i][1] \in DOMAIN A => o.recs[items[i][2]] = A[items[i][1]]
     ELSE TRUE

QueriesOK(o, A) == "q" \in DOMAIN o => \A i \in 1..Len(o.q) : QueryOK(o.q[i], A, o)

\* C13: order of single comparisons / And chains ending on an indexed field; AssignIndex
NonIncr(s) == \A i \in 1..Len(s) - 1 : s[i] >= s[i + 1]
OrderedQ(q) == /\ WellFormedQ(q) /\ q[Len(q)][2] \in IndexedF
               /\ \A i \in 2..Len(q) : q[i][1] \in {"and", "&&", "AND", "And"}
OrderOK(o, A) ==
  /\ "q" \in DOMAIN o => \A i \in 1..Len(o.q) :
       LET q == o.q[i][1]  items == o.q[i][3] IN
       (OrderedQ(q) /\ o.q[i][2] = "ok" /\ \A j \in 1..Len(items) : items[j][1] \in DOMAIN A)
          => NonIncr([j \in 1..Len(items) |-> A[items[j][1]][q[Len(q)][2]]])
  /\ "aidx" \in DOMAIN o => \A f \in DOMAIN o.aidx :
       f \in IndexedF =>
         LET c == o.aidx[f][1]  codes == o.aidx[f][2] IN
         /\ c = "ok"
         /\ NonIncr(codes)
         /\ Len(codes) = Cardinality(DOMAIN A)
         /\ \A s \in DOMAIN A : Cardinality({j \in 1..Len(codes) : codes[j] = A[s][f]}) = Cardinality({t \in DOMAIN A : A[t][f] = A[s][f]})

\* two sweeps agree (C04): same listing, same answers; ordered results compared by key sequence
SameObs(a, b) ==
  /\ AllMap(a) = AllMap(b) /\ a.count = b.count
  /\ ~hdr.cfg.async => a.control = b.control      \* with pending writes Control legitimately differs
  /\ Len(a.get) = Len(b.get)
  /\ \A i \in 1..Len(a.get) :
       /\ a.get[i].slot = b.get[i].slot /\ a.get[i].ex = b.get[i].ex
       /\ \A k \in {"g1", "gu", "g2"} :
            /\ a.get[i][k][1] = b.get[i][k][1]
            /\ a.get[i][k][1] = "ok" => a.recs[a.get[i][k][2]] = b.recs[b.get[i][k][2]]
  /\ ("q" \in DOMAIN a /\ "q" \in DOMAIN b) =>
       /\ Len(a.q) = Len(b.q)
       /\ \A i \in 1..Len(a.q) :
            LET x == a.q[i]  y == b.q[i] IN
            /\ x[1] = y[1] /\ x[2] = y[2] /\ x[4] = y[4]
            /\ {x[3][j][1] : j \in 1..Len(x[3])} = {y[3][j][1] : j \in 1..Len(y[3])}
            /\ (OrderedQ(x[1]) /\ \A j \in 1..Len(x[3]) : x[3][j][1] \in DOMAIN AllMap(a)) =>
                 [j \in 1..Len(x[3]) |-> AllMap(a)[x[3][j][1]][x[1][Len(x[1])][2]]]
                   = [j \in 1..Len(y[3]) |-> AllMap(b)[y[3][j][1]][y[1][Len(y[1])][2]]]
  /\ ("aidx" \in DOMAIN a /\ "aidx" \in DOMAIN b) => a.aidx = b.aidx
  /\ ("x" \in DOMAIN a /\ "x" \in DOMAIN b) => (a.x.all = b.x.all /\ a.x.count = b.x.count /\ a.x.keys = b.x.keys /\ a.x.get = b.x.get)

-----------------------------------------------------------------------------
(* A SECOND COLLECTION in the same database (events xput / xdel / xflush; sweeps carry "x").  Its    *)
(* abstract state is a function of the consumed prefix of the current test, so it needs no variable: *)
(* slot -> <<key, value>>, key unique.  It is specified like the first one, in small: reads = the    *)
(* accepted writes, unique <=> conflict, nothing pending once Close / FlushAllAndCommit returned -   *)
(* and the two collections never disturb each other (the first one's invariants are evaluated on     *)
(* the same traces, unchanged).                                                                      *)
RECURSIVE XStoreAt(_)
XStoreAt(i) ==
  IF i = 0 \/ Trace[i].ev = "reset" THEN Empty
  ELSE LET S == XStoreAt(i - 1)  x == Trace[i] IN
       CASE x.ev = "xput" /\ x.c = "ok" -> Upd(S, x.slot, <<x.k, x.a>>)
         [] x.ev = "xdel" /\ x.c = "ok" -> Rem(S, {x.slot})
         [] x.ev = "drop" -> Empty                                          \* Drop removes every collection
         [] OTHER -> S
\* may a write of the second collection still be pending after event i ?
RECURSIVE XPending(_)
XPending(i) ==
  IF i = 0 \/ Trace[i].ev = "reset" THEN FALSE
  ELSE LET x == Trace[i] IN
       CASE x.ev \in {"xput", "xdel"} /\ x.c = "ok" -> hdr.cfg.async
         [] x.ev = "reopen" /\ x.close -> FALSE
         [] x.ev = "drop" -> FALSE
         [] x.ev = "xflush" /\ x.c = "ok" /\ x.what # "all" -> FALSE        \* (FlushAll writes the files but does not commit the index)
         [] OTHER -> XPending(i - 1)
\* how many poll periods have elapsed since the second collection was last written to (its flusher flushes and commits
\* at the latest one timeout after any write: its sleep counter only restarts when it flushes)
RECURSIVE XTicksSince(_)
XTicksSince(i) ==
  IF i = 0 \/ Trace[i].ev = "reset" THEN 0
  ELSE LET x == Trace[i] IN
       CASE x.ev \in {"xput", "xdel"} /\ x.c = "ok" -> 0
         [] x.ev \in {"reopen", "drop"} -> 0
         [] x.ev = "tick" -> XTicksSince(i - 1) + 1
         [] OTHER -> XTicksSince(i - 1)
XConflict(S, u, k) == \E w \in DOMAIN S : w # u /\ S[w][1] = k
XMap(rows)   == [u \in {rows[i][1] : i \in 1..Len(rows)} |-> LET i == CHOOSE i \in 1..Len(rows) : rows[i][1] = u IN <<rows[i][2], rows[i][3]>>]
XFileMap(fs) == [u \in {fs[i][1] : i \in 1..Len(fs)} |-> LET i == CHOOSE i \in 1..Len(fs) : fs[i][1] = u IN <<fs[i][3], fs[i][4]>>]
XReadsOK(x, S) ==
  /\ x.all_c = "ok" /\ x.count_c = "ok" /\ x.keys_c = "ok"
  /\ NoDup([i \in 1..Len(x.all) |-> x.all[i][1]]) /\ XMap(x.all) = S /\ x.count = Cardinality(DOMAIN S)
  /\ Len(x.keys) = Cardinality(DOMAIN S) /\ {x.keys[i] : i \in 1..Len(x.keys)} = {S[u][1] : u \in DOMAIN S}
  /\ \A i \in 1..Len(x.get) : IF x.get[i][1] \in DOMAIN S THEN x.get[i][2] = "ok" /\ <<x.get[i][3], x.get[i][4]>> = S[x.get[i][1]]
                                                           ELSE x.get[i][2] # "ok"
\* the directory of the second collection holds exactly S, one readable file per object, and the committed index lists them
XDirOK(d, S) ==
  /\ d.exists /\ d.schema /\ "schema_err" \notin DOMAIN d /\ Len(d.extra) = 0
  /\ NoDup([i \in 1..Len(d.files) |-> d.files[i][1]]) /\ \A i \in 1..Len(d.files) : d.files[i][2] = "ok"
  /\ XFileMap(d.files) = S
  /\ Len(d.sidx) = Cardinality(DOMAIN S) /\ {d.sidx[i] : i \in 1..Len(d.sidx)} = DOMAIN S
\* (asynchronous, writes pending) nothing deleted or never accepted is on disk
XNoResurrection(d, S) == \A i \in 1..Len(d.files) : d.files[i][1] \in DOMAIN S /\ d.files[i][2] = "ok"
Conf_X ==
  At =>
  /\ (E.ev = "obs" /\ "x" \in DOMAIN E) =>
        /\ XReadsOK(E.x, XStoreAt(l - 1))
        /\ IF XPending(l - 1) THEN XNoResurrection(E.x.dir, XStoreAt(l - 1)) ELSE XDirOK(E.x.dir, XStoreAt(l - 1))
  /\ E.ev = "xput" => /\ E.c \in {"ok", "unique"}
                       /\ (E.c = "unique") <=> XConflict(XStoreAt(l - 2), E.slot, E.k)
  /\ E.ev = "xdel" => E.c \in {"ok", "unbound"}
  \* FlushAll: every accepted object is on disk; FlushAllAndCommit and Close: and the index is committed
  /\ E.ev = "xflush" => /\ E.c = "ok" /\ XFileMap(E.xdir.files) = XStoreAt(l - 1)
                         /\ E.what # "all" => XDirOK(E.xdir, XStoreAt(l - 1))
  /\ (E.ev = "reopen" /\ E.close /\ "xdir" \in DOMAIN E) => XDirOK(E.xdir, XStoreAt(l - 1))
  \* the second collection has a background flusher of its own: one timeout after its last write everything it accepted
  \* is on disk and committed, without any further call
  /\ (E.ev = "tick" /\ "xdir" \in DOMAIN E /\ hdr.cfg.async) =>
        /\ XNoResurrection(E.xdir, XStoreAt(l - 1))
        /\ XTicksSince(l - 1) >= TmoTicks => XDirOK(E.xdir, XStoreAt(l - 1))

-----------------------------------------------------------------------------
(* One invariant per property                                               *)

NoPanic == At => E.ev \notin {"panic", "hang"}

\* C01 reads = accepted writes; fresh / stable identifiers
Conf_C01 ==
  At =>
  /\ E.ev = "obs" => ReadsOK(E, store)
  /\ (E.ev = "put" /\ E.c = "ok") => (E.kept /\ E.fresh)
  /\ E.ev = "many" => \A i \in 1..E.n : "after" \in DOMAIN E.batch[i] => (E.batch[i].kept /\ E.batch[i].fresh)
  \* an object that already has an identifier keeps it whatever the outcome of the call (accepted, refused, failed)
  /\ E.ev = "put" => E.kept
  /\ E.ev = "many" => \A i \in 1..Len(E.batch) : "kept" \in DOMAIN E.batch[i] => E.batch[i].kept
  /\ E.ev \in {"del", "delall"} => E.c = "ok"
  /\ E.ev = "hdr" => E.c = "ok"
  /\ E.ev = "repair" => E.c = "ok"            \* Repair on a live handle in order: succeeds (and changes nothing: the sweeps that follow)

\* C02 search = exactly the matches (judged against the same sweep's own listing)
Conf_C02 ==
  At =>
  /\ (E.ev = "obs" /\ E.all_c = "ok") => QueriesOK(E, AllMap(E))
  /\ E.ev = "delsearch" =>
       (WellFormedQ(E.q) => /\ E.c = "ok" /\ E.len = Cardinality(MatchesQ(pstore, E.q)))

\* (the search-delete clause alone: used to decide whether a history recorded with the PINNED release can be adopted -
\* its search-deletes must have deleted what the abstract map says, its reads are not judged)
Conf_C02D ==
  At => (E.ev = "delsearch" => (WellFormedQ(E.q) => /\ E.c = "ok" /\ E.len = Cardinality(MatchesQ(pstore, E.q))))

\* C03 uniqueness: never violated, never over-enforced
Conf_C03 ==
  At =>
  /\ hdr.ev = "hdr" => UniqueInv(store)
  /\ E.ev = "put" =>
       LET o == Stored(E.o) IN
       Valid(o) => ((E.c = "unique") <=> Conflict(pstore, E.slot, o))

\* C04 close / reopen (or abandon, sync) preserves everything
Conf_C04 ==
  At =>
  /\ (E.ev = "obs" /\ l > 3 /\ pstore = store) =>
       ((Trace[l - 2].ev = "reopen" /\ Trace[l - 3].ev = "obs") => SameObs(Trace[l - 3], E))
  /\ E.ev = "reopen" => (E.c = "ok" /\ E.cc = "ok")

\* C06 a rejected write leaves no trace
Conf_C06 ==
  At =>
  /\ (E.ev = "obs" /\ E.after_fail) =>
       /\ ReadsOK(E, store) /\ QueriesOK(E, store) /\ OrderOK(E, store)
       \* Control is judged only when nothing can be pending (an accepted async write is
       \* legitimately indexed before its file exists)
       /\ ~hdr.cfg.async => E.control = "ok"
  /\ (E.ev = "many" /\ E.csize = 0 /\ E.c # "ok" /\ ~E.fired) => E.n = 0


\* Limit / Reverse / One on an ordered result: an admissible prefix of the chosen order (ties in any order)
LimitOK(res, M, S, f, n, rev) ==
  /\ Len(res) = IF n >= 0 /\ n < Cardinality(M) THEN n ELSE Cardinality(M)
  /\ NoDup(res)
  /\ \A i \in 1..Len(res) : res[i] \in M
  /\ \A i \in 1..Len(res) - 1 : IF rev THEN S[res[i]][f] <= S[res[i + 1]][f] ELSE S[res[i]][f] >= S[res[i + 1]][f]
  /\ \A x \in M \ Seq2Set(res), i \in 1..Len(res) : IF rev THEN S[x][f] >= S[res[i]][f] ELSE S[x][f] <= S[res[i]][f]
UnorderedLimitOK(res, M, n) ==
  /\ Len(res) = IF n >= 0 /\ n < Cardinality(M) THEN n ELSE Cardinality(M)
  /\ NoDup(res) /\ \A i \in 1..Len(res) : res[i] \in M

CollectOK(c, H) ==
  LET M == MatchesQ(H.S, H.q)
      f == H.q[Len(H.q)][2]
      res == [i \in 1..Len(c.items) |-> c.items[i][1]]
      AllOK(lim) == /\ c.c = "ok"
                    /\ IF OrderedQ(H.q) THEN LimitOK(res, M, H.S, f, lim, c.rev) ELSE UnorderedLimitOK(res, M, lim)
      FirstOK == /\ (M = {}) => (c.c = "noobject" /\ Len(res) = 0)
                 /\ (M # {}) => /\ c.c = "ok"
                               /\ IF OrderedQ(H.q) THEN LimitOK(res, M, H.S, f, 1, c.rev) ELSE UnorderedLimitOK(res, M, 1)
  IN /\ \A i \in 1..Len(c.items) : c.items[i][1] \in DOMAIN H.S => c.items[i][2] = H.S[c.items[i][1]]
     /\ CASE c.what \in {"one", "assignone"} -> FirstOK
          \* AssignUnique: more than one result is the unexpected-number error, otherwise as AssignOne
          [] c.what = "assignunique" -> IF Cardinality(M) > 1 THEN c.c = "unexpectedn" /\ Len(res) = 0 ELSE FirstOK
          \* Expects(n): collecting succeeds iff exactly n objects match; ExpectsZeroOrN(n): iff none or n
          [] c.what = "expects"   -> IF Cardinality(M) = c.n THEN AllOK(c.lim) ELSE c.c = "unexpectedn" /\ Len(res) = 0
          [] c.what = "expectszn" -> IF Cardinality(M) \in {0, c.n} THEN AllOK(c.lim) ELSE c.c = "unexpectedn" /\ Len(res) = 0
          [] OTHER -> AllOK(c.lim)

\* C13 order, Reverse, Limit, One, AssignIndex
Conf_C13 ==
  At =>
  /\ (E.ev = "obs" /\ E.all_c = "ok") => OrderOK(E, AllMap(E))
  /\ (E.ev = "eval" /\ WellFormedQ(E.q)) => (E.c = "ok" /\ E.len = Cardinality(MatchesQ(store, E.q)))
  /\ (E.ev = "derive" /\ WellFormedQ(E.q) /\ hands[E.h].c # "unjudged") => (E.c = "ok" /\ E.len = Cardinality(MatchesQ(store, E.q)))
  /\ (E.ev = "collect" /\ E.h \in DOMAIN hands) =>
        LET H == hands[E.h] IN
        (H.S = store /\ H.gone = {} /\ WellFormedQ(H.q) /\ H.c = "ok") => CollectOK(E, H)

\* C20 a search value is a snapshot of the matches at evaluation time
Conf_C20 ==
  (At /\ E.ev = "collect" /\ E.h \in DOMAIN hands /\ E.what = "collect" /\ E.lim < 0) =>
     LET H   == hands[E.h]
         M   == MatchesQ(H.S, H.q)
         res == [i \in 1..Len(E.items) |-> E.items[i][1]]
     IN (WellFormedQ(H.q) /\ H.c = "ok") =>
          /\ (E.c = "ok") =>
                /\ NoDup(res)
                /\ Seq2Set(res) \subseteq M                 \* nothing that did not match at evaluation time
                /\ (M \ H.gone) \subseteq Seq2Set(res)       \* every match still stored is there
                /\ \A i \in 1..Len(E.items) : E.items[i][1] \in DOMAIN store => E.items[i][2] = store[E.items[i][1]]
          /\ (E.c # "ok") => (M \cap H.gone # {})           \* an error only when a match was deleted meanwhile

\* C07 batches: all or nothing per batch and per chunk
IsObj(x)    == "o" \in DOMAIN x
BIds(b)     == {b[i].slot : i \in {j \in 1..Len(b) : IsObj(b[j])}}
FinalT(b, u) == Stored(b[CHOOSE i \in 1..Len(b) : IsObj(b[i]) /\ b[i].slot = u /\ \A j \in (i + 1)..Len(b) : ~(IsObj(b[j]) /\ b[j].slot = u)].o)
MustRejectT(S, b) ==
  \/ (\E i \in 1..Len(b) : ~IsObj(b[i])) /\ (\E i \in 1..Len(b) : IsObj(b[i]))
  \/ \E i \in 1..Len(b) : IsObj(b[i]) /\ ~Valid(Stored(b[i].o))
  \/ \E i \in 1..Len(b), f \in UniqueF, w \in DOMAIN S :
        IsObj(b[i]) /\ w \notin BIds(b) /\ S[w][f] = Stored(b[i].o)[f]
  \/ \E x, y \in BIds(b), f \in UniqueF : x # y /\ FinalT(b, x)[f] = FinalT(b, y)[f]
MustAcceptT(S, b) ==
  /\ \A i \in 1..Len(b) : IsObj(b[i]) /\ Valid(Stored(b[i].o))
  /\ \A i \in 1..Len(b), f \in UniqueF, w \in DOMAIN S : w # b[i].slot => S[w][f] # Stored(b[i].o)[f]
  /\ \A i, j \in 1..Len(b), f \in UniqueF : b[i].slot # b[j].slot => Stored(b[i].o)[f] # Stored(b[j].o)[f]
Min(a, b) == IF a < b THEN a ELSE b
Conf_C07 ==
  At => (E.ev = "many" =>
    LET b == E.batch  L == Len(E.batch)  n == E.n  cs == E.csize IN
    IF cs = 0
    THEN /\ (E.c = "ok") => n = L
         /\ (E.c # "ok") => n = 0
         /\ L > 0 => /\ (MustRejectT(pstore, b) => E.c # "ok")
                      /\ (MustAcceptT(pstore, b) => E.c = "ok")
    ELSE /\ (E.c = "ok") => n = L
         /\ (E.c # "ok") => (n % cs = 0 /\ n < L)
         \* every applied chunk was acceptable in the state left by the chunks before it
         /\ \A k \in 0..((n - 1) \div cs) :
               (n > 0) => ~MustRejectT(ApplyBatch(pstore, b, k * cs), SubSeq(b, k * cs + 1, Min((k + 1) * cs, n)))
         \* the chunk at which the call stopped was not one that had to be accepted
         /\ (E.c # "ok") => ~MustAcceptT(ApplyBatch(pstore, b, n), SubSeq(b, n + 1, Min(n + cs, L))))

\* C14 stored values are isolated from caller memory: scribbling over an object that was passed to
\* a write, or returned by a read, changes nothing that later reads return; two reads share no memory
Conf_C14 ==
  At =>
  /\ E.ev = "obs" => ReadsOK(E, store)
  \* One / AssignOne with one probe for two look-ups: a result is neither the probe nor the other result, it is the stored object
  \* and stays what it was when the other result is obtained and scribbled over
  /\ (E.ev = "mutate" /\ E.what = "one" /\ "before" \in DOMAIN E) =>
        /\ ~E.isprobe /\ E.slot1 \in DOMAIN store /\ E.before = store[E.slot1]
        /\ "after" \in DOMAIN E => (E.after = E.before /\ E.after2 = E.before /\ (~E.same \/ Cardinality(DOMAIN store) = 1))
  /\ (E.ev = "mutate" /\ E.what = "share" /\ E.c = "ok") => E.before = E.after
  /\ (E.ev = "mutate" /\ E.what = "share" /\ E.slot \in DOMAIN store) => (E.c = "ok" /\ E.before = store[E.slot])

\* C18 on-disk layout: one directory named after the type, schema.json, exactly one file per stored
\* object named <uuid><ext>[.gz] whose plain JSON content is the object (decoded independently)
DirOK(o, S) ==
  LET d == o.dir IN
  /\ d.exists /\ d.schema /\ "schema_err" \notin DOMAIN d
  /\ d.colls = (IF "xwant" \in DOMAIN d THEN <<d.xwant, d.want>> ELSE <<d.want>>)   \* no other directory, the expected name(s)
  /\ Len(d.extra) = 0                                   \* nothing but object files and the schema
  /\ NoDup([i \in 1..Len(d.files) |-> d.files[i][1]])
  /\ {d.files[i][1] : i \in 1..Len(d.files)} = DOMAIN S
  /\ \A i \in 1..Len(d.files) : /\ d.files[i][3] = "ok"
                                 /\ d.files[i][1] \in DOMAIN S => o.recs[d.files[i][2]] = S[d.files[i][1]]
Conf_C18 ==
  At =>
  /\ (E.ev = "obs" /\ "dir" \in DOMAIN E /\ ~hdr.cfg.async) => DirOK(E, store)
  \* the directory of every collection type is named as the pinned release names it
  /\ E.ev = "names" => E.got = E.want
  \* once Close has returned the layout is exact under every configuration
  /\ (E.ev = "reopen" /\ E.close /\ "dir" \in DOMAIN E) => DirOK(E, store)

\* C19 (argument part): malformed search arguments give an error, never a panic, never objects
ArgOK(x, empty) ==
  LET kind == x[3]  c == x[4]  n == x[5]  andc == x[6] IN
  /\ c # "panic" /\ c \notin {"one-ok-after-error", "delete-ok-after-error", "inconsistent-err"}
  /\ kind = "ok" => (c = "ok" /\ andc = "ok")
  \* a malformed query never yields objects; it is an error, except that on an empty collection
  \* the empty result is a valid result too
  /\ kind # "ok" => (n = 0 /\ andc # "objects" /\ (c = "ok" => empty))
  \* joined to a valid search with Or / Operation("or"): an error too, never the other operand's objects
  /\ Len(x) >= 8 => (/\ x[8] \notin {"panic", "inconsistent-err"}
                      /\ (kind = "ok" => x[8] = "ok")
                      /\ (kind # "ok" => (x[8] # "objects" /\ (x[8] = "ok" => empty))))
  /\ (kind = "unknownfield" /\ c # "ok") => c = "unknownfield"
  /\ (kind = "unknownop" /\ c # "ok") => c = "unknownop"
  /\ (kind = "mistyped" /\ c # "ok") => c = "casting"
  /\ (kind = "badkey" /\ c # "ok") => c \in {"unknownkey", "casting"}
  /\ (kind = "badregex") => c = "badregex"
BadRegexOK(o) ==
  "q" \in DOMAIN o => \A i \in 1..Len(o.q) : ~WellFormedQ(o.q[i][1]) => (o.q[i][2] # "ok" /\ Len(o.q[i][3]) = 0)
Conf_C19 ==
  At =>
  /\ E.ev = "args" => \A i \in 1..Len(E.res) : ArgOK(E.res[i], DOMAIN store = {})
  /\ E.ev = "obs" => BadRegexOK(E)

-----------------------------------------------------------------------------
(* Crash, damage and storage-fault observations.  Such an event carries the  *)
(* sweeps of a fresh handle: obs1 after the first load, obs2 after Repair,  *)
(* obs3 after Close and a second fresh handle; record ids refer to E.recs.  *)

WithRecs(o, recs) == [x \in DOMAIN o \cup {"recs"} |-> IF x = "recs" THEN recs ELSE o[x]]
\* what the directory holds, decoded independently of sod: slot -> record
FM(o) == [u \in {o.dir.files[i][1] : i \in {j \in 1..Len(o.dir.files) : o.dir.files[j][3] = "ok"}} |->
            o.recs[o.dir.files[CHOOSE i \in 1..Len(o.dir.files) : o.dir.files[i][1] = u /\ o.dir.files[i][3] = "ok"][2]]]
Readable(o) == /\ \A i \in 1..Len(o.dir.files) : o.dir.files[i][3] = "ok"
               /\ "schema_err" \notin DOMAIN o.dir
\* index and files agree: every read path and every search reflects the file contents
Agree(o, F) == "panic" \notin DOMAIN o /\ ReadsOK(o, F) /\ QueriesOK(o, F) /\ OrderOK(o, F)

\* Known finding (deviation StaleIndex): a crash between the rewrite of an object file and the commit
\* of the schema leaves the OLD indexed values of that object in the index; Control cannot see it and
\* Repair skips the object.  G is the listing the index then reflects: indexed fields of the stale
\* objects from the pre-state, everything else from the files.
\* the versions of an object the index may still describe: the one before the call, or (chunked bulk
\* insert: earlier chunks are committed) any version the interrupted call wrote
\* every version of an object the test was acknowledged for (or asked for in a batch) since the last reset
RECURSIVE VersionsAt(_, _)
VersionsAt(i, u) ==
  IF i = 0 \/ Trace[i].ev = "reset" THEN {}
  ELSE LET x == Trace[i]  r == VersionsAt(i - 1, u) IN
       CASE x.ev = "put" /\ x.slot = u /\ x.c = "ok" -> r \cup {x.after}
         [] x.ev = "many" -> r \cup {x.batch[j].after : j \in {k \in 1..Len(x.batch) : "after" \in DOMAIN x.batch[k] /\ x.batch[k].slot = u}}
         [] OTHER -> r
AsyncOn == hdr.ev = "hdr" /\ hdr.cfg.async
Versions(F, Sm, u) ==
  {F[u]} \cup (IF u \in DOMAIN Sm THEN {Sm[u]} ELSE {})
         \* asynchronous writes (deviation AsyncStaleIndex): any accepted version, see CrashAsyncOK
         \cup (IF AsyncOn THEN VersionsAt(l - 1, u) ELSE {})
         \cup (IF wev > 0 /\ Trace[wev].ev = "many"
               THEN {Trace[wev].batch[i].after : i \in {j \in 1..Len(Trace[wev].batch) : "after" \in DOMAIN Trace[wev].batch[j] /\ Trace[wev].batch[j].slot = u}}
               ELSE {})
Mix(file, old) == [f \in DOMAIN file |-> IF f \in IndexedF THEN old[f] ELSE file[f]]
StaleViews(F, Sm) ==
  LET all == UNION {Versions(F, Sm, u) : u \in DOMAIN F}
  IN {[u \in DOMAIN F |-> Mix(F[u], g[u])] : g \in {h \in [DOMAIN F -> all] : \A u \in DOMAIN F : h[u] \in Versions(F, Sm, u)}}
QueryStaleOK(qe, G, F, o) ==
  LET q == qe[1]  c == qe[2]  items == qe[3]
      slots == [i \in 1..Len(items) |-> items[i][1]]
  IN WellFormedQ(q) => /\ c = "ok" /\ NoDup(slots) /\ Seq2Set(slots) = MatchesQ(G, q)
                       /\ \A i \in 1..Len(items) : items[i][1] \in DOMAIN F => o.recs[items[i][2]] = F[items[i][1]]
AgreeStale(o, F, Sm) ==
  /\ "panic" \notin DOMAIN o /\ ReadsOK(o, F)
  /\ "q" \in DOMAIN o => \E G \in StaleViews(F, Sm) : \A i \in 1..Len(o.q) : QueryStaleOK(o.q[i], G, F, o)
AgreeD(o, F, Sm) == Agree(o, F) \/ ((IF AsyncOn THEN "AsyncStaleIndex" \in Dev ELSE "StaleIndex" \in Dev) /\ AgreeStale(o, F, Sm))

LoadReports(E_) == E_.load = "corrupted" \/ ("create" \in DOMAIN E_ /\ E_.create = "corrupted")
LoadFine(E_)    == E_.load \in {"ok", "corrupted"} \/ (E_.load = "notfound" /\ "create" \in DOMAIN E_ /\ E_.create \in {"ok", "corrupted"})

\* C05: a crash at any point is detected or harmless, and Repair converges
CrashOK(E_, Sm, Sp) ==
  LET o1 == WithRecs(E_.obs1, E_.recs)
      o2 == WithRecs(E_.obs2, E_.recs)
      o3 == WithRecs(E_.obs3, E_.recs)
      F  == FM(o1)
  IN /\ Readable(o1)                                                       \* no object or schema left unreadable
     /\ 0 \notin DOMAIN F
     \* each object entirely old or new (or, when a batch writes the same identity several times, one of the versions it was asked to write)
     /\ \A u \in DOMAIN F : \/ (u \in DOMAIN Sm /\ F[u] = Sm[u]) \/ (u \in DOMAIN Sp /\ F[u] = Sp[u])
                              \/ (wev > 0 /\ Trace[wev].ev = "many" /\ \E i \in 1..Len(Trace[wev].batch) :
                                     "after" \in DOMAIN Trace[wev].batch[i] /\ Trace[wev].batch[i].slot = u /\ Trace[wev].batch[i].after = F[u])
     /\ \A u \in DOMAIN Sm : (u \in DOMAIN Sp /\ Sm[u] = Sp[u]) => (u \in DOMAIN F /\ F[u] = Sm[u])     \* acknowledged, untouched objects intact
     /\ \A u \in DOMAIN Sm \cap DOMAIN Sp : u \in DOMAIN F                                               \* an update never loses the object
     /\ LoadFine(E_)
     /\ (LoadReports(E_) \/ o1.control = "corrupted") \/ AgreeD(o1, F, Sm)    \* detected, or index and files agree
     /\ E_.repair = "ok" /\ o2.control = "ok" /\ RepairClean(E_)
     /\ FM(o2) = F /\ Readable(o2)                                          \* Repair touches no object file
     /\ Agree(o2, F)                                                        \* Repair rebuilds every entry from its file: exact agreement, no deviation
     /\ E_.close = "ok" /\ E_.load3 = "ok" /\ o3.control = "ok" /\ Agree(o3, F)
\* C05 with asynchronous writes.  "Every acknowledged operation is reflected" is promised for synchronous mode
\* only; everything else stands: nothing unreadable, every object file is entirely ONE version the collection
\* accepted for that object (and belongs to an object stored before or after the interrupted call), the first load /
\* Control report corruption or index and files agree, Repair touches no file and converges.
\* Known finding (deviation AsyncStaleIndex, K03): the schema is committed by calls that do not flush (Delete,
\* Commit) and objects are flushed by steps that commit later, so a crash can leave the index describing ANOTHER
\* accepted version of an object than its file - older or newer; Control cannot see it, Repair keeps the entry.
CrashAsyncOK(E_, Sm, Sp) ==
  LET o1 == WithRecs(E_.obs1, E_.recs)
      o2 == WithRecs(E_.obs2, E_.recs)
      o3 == WithRecs(E_.obs3, E_.recs)
      F  == FM(o1)
  IN /\ Readable(o1) /\ 0 \notin DOMAIN F
     /\ \A u \in DOMAIN F : F[u] \in VersionsAt(l - 1, u) /\ (u \in DOMAIN Sm \/ u \in DOMAIN Sp)
     /\ LoadFine(E_)
     /\ (LoadReports(E_) \/ o1.control = "corrupted") \/ AgreeD(o1, F, Sm)
     /\ FM(o2) = F /\ Readable(o2)                                          \* Repair touches no object file
     /\ \/ /\ E_.repair = "ok" /\ o2.control = "ok"
           /\ Agree(o2, F)
           /\ E_.close = "ok" /\ E_.load3 = "ok" /\ o3.control = "ok" /\ Agree(o3, F)
        \* Known finding (deviation AsyncUniqueClash, K04): pending objects are flushed one file at a time.  When a unique
        \* value has moved from one object to another since the last flush, a crash after the file of the object that TOOK
        \* the value and before the file of the object that GAVE it up leaves two object files holding the same unique
        \* value (each one entirely an accepted version): no index can describe them, Repair fails with the uniqueness error.
        \/ /\ "AsyncUniqueClash" \in Dev
           /\ \E u, v \in DOMAIN F, f \in UniqueF : u # v /\ F[u][f] = F[v][f]
           /\ E_.repair = "unique"
Conf_C05 ==
  At => (E.ev = "crash" => IF AsyncOn THEN CrashAsyncOK(E, wpre, store) ELSE CrashOK(E, wpre, store))

\* C11: Control / first load report corruption iff indexed ids # file ids; Repair restores agreement
DamageOK(E_, Sm, F) ==
  LET o1 == WithRecs(E_.obs1, E_.recs)
      o2 == WithRecs(E_.obs2, E_.recs)
      o3 == IF "obs3" \in DOMAIN E_ THEN WithRecs(E_.obs3, E_.recs) ELSE o2
      indexed  == IF E_.rmschema THEN {} ELSE DOMAIN Sm \ {E_.unindex[i] : i \in 1..Len(E_.unindex)}
      diverged == indexed # DOMAIN F
  IN /\ E_.close = "ok"
     /\ LoadFine(E_)
     /\ LoadReports(E_) <=> diverged                  \* the first load after Open
     /\ (o1.control = "corrupted") <=> diverged        \* Control
     /\ o1.control \in {"ok", "corrupted"}
     /\ FM(o1) = F /\ Readable(o1)
     /\ ~diverged => Agree(o1, F)
     /\ E_.repair = "ok" /\ o2.control = "ok" /\ Agree(o2, F) /\ RepairClean(E_)
     /\ FM(o2) = F /\ Readable(o2)                     \* no object file modified or deleted
     \* (a damage event marked "live" keeps the repaired handle in use: no third handle is opened)
     /\ "obs3" \in DOMAIN E_ => (E_.load3 = "ok" /\ o3.control = "ok" /\ Agree(o3, F))
Conf_C11 ==
  At => (E.ev = "damage" => DamageOK(E, pstore, store))

\* C06 (storage faults): the state is unchanged, or the divergence is reported and Repair restores it
\* the state the interrupted call would have produced
Would(w, S) ==
  CASE w.ev = "put"       -> Upd(S, w.slot, w.after)
    [] w.ev = "many"      -> ApplyBatch(S, w.batch, Len(w.batch))
    [] w.ev = "del"       -> Rem(S, {w.slot})
    [] w.ev = "delall"    -> Empty
    [] w.ev = "delsearch" -> IF WellFormedQ(w.q) THEN Rem(S, MatchesQ(S, w.q)) ELSE S
    [] OTHER              -> S
OldOrNew(F, Sm, Sp) == \A u \in DOMAIN F : (u \in DOMAIN Sm /\ F[u] = Sm[u]) \/ (u \in DOMAIN Sp /\ F[u] = Sp[u])
                                             \/ (wev > 0 /\ Trace[wev].ev = "many" /\ \E i \in 1..Len(Trace[wev].batch) :
                                                    "after" \in DOMAIN Trace[wev].batch[i] /\ Trace[wev].batch[i].slot = u /\ Trace[wev].batch[i].after = F[u])
\* an object the call was not deleting still has its file
\* (asynchronous writes: unless it never had one - unfl = accepted, not flushed yet)
NoLossF(F, Sm, Sp) == \A u \in DOMAIN Sm : (u \in DOMAIN Sp /\ u \notin unfl) => u \in DOMAIN F
FaultOK(E_, Sm) ==
  LET o0 == WithRecs(E_.obs0, E_.recs)
      o1 == WithRecs(E_.obs1, E_.recs)
      o2 == WithRecs(E_.obs2, E_.recs)
      o3 == WithRecs(E_.obs3, E_.recs)
      Sp == Would(Trace[wev], Sm)
      \* the failed call left no trace: live handle and a fresh handle both report the state before the call
      silent   == /\ Agree(o0, Sm) /\ E_.load = "ok" /\ Agree(o1, Sm) /\ (~hdr.cfg.async => o1.control = "ok")
      noticed  == o0.control = "corrupted" \/ E_.load = "corrupted" \/ o1.control = "corrupted"
      restored == /\ E_.repair = "ok" /\ o2.control = "ok" /\ Readable(o2) /\ Agree(o2, FM(o2))
                  /\ E_.load3 = "ok" /\ o3.control = "ok" /\ Agree(o3, FM(o2))
                  /\ 0 \notin DOMAIN FM(o2) /\ OldOrNew(FM(o2), Sm, Sp) /\ NoLossF(FM(o2), Sm, Sp)
      \* Known finding (deviation CommitFault): a fault after the object file has been replaced (in the
      \* schema commit, or in a later object of a batch) makes the call fail although the write is applied
      \* in memory and on disk; a fresh handle then loads the old index.  What is still demanded:
      \* readable files, each object old or new, Repair succeeds and everything then agrees with the
      \* files up to the stale indexed values of rewritten objects.
      \* The stale values are those of the state BEFORE the interrupted call (wpre): a batch whose objects
      \* were all written and whose commit failed reports n objects and an error, so Sm already holds them.
      Pre      == IF wev > 0 THEN wpre ELSE Sm
      \* ... and it is only that finding when the fault fell where its signature says: after an object file of the call
      \* had been replaced, or in the commit of the schema (asynchronous writes: the commit is the call's only writing)
      sign     == ("at" \in DOMAIN E_) => (E_.at.obj >= 1 \/ E_.at.tgt = "sch" \/ hdr.cfg.async)
      devshape == /\ "CommitFault" \in Dev /\ sign
                  /\ Readable(o1) /\ 0 \notin DOMAIN FM(o1) /\ OldOrNew(FM(o1), Pre, Sp) /\ NoLossF(FM(o1), Pre, Sp)
                  /\ LoadFine(E_) /\ E_.repair = "ok" /\ o2.control = "ok" /\ FM(o2) = FM(o1)
                  /\ Agree(o2, FM(o2)) /\ E_.load3 = "ok" /\ o3.control = "ok" /\ Agree(o3, FM(o2))
  IN /\ E_.c # "panic" /\ "panic" \notin DOMAIN o0 /\ "panic" \notin DOMAIN o1
     /\ silent \/ (noticed /\ restored) \/ devshape
\* A fault the call ABSORBED (it returned success): the live handle shows the state after the call, and a fresh handle
\* finds that state too, or finds the damage and Repair restores agreement with the files - never a silent divergence.
AbsorbedOK(E_, Sp) ==
  LET o0 == WithRecs(E_.obs0, E_.recs)
      o1 == WithRecs(E_.obs1, E_.recs)
      o2 == WithRecs(E_.obs2, E_.recs)
      o3 == WithRecs(E_.obs3, E_.recs)
      durable  == E_.load = "ok" /\ Agree(o1, Sp) /\ o1.control = "ok"
      noticed  == o0.control = "corrupted" \/ E_.load = "corrupted" \/ o1.control = "corrupted"
      restored == /\ E_.repair = "ok" /\ o2.control = "ok" /\ Readable(o2) /\ Agree(o2, FM(o2))
                  /\ E_.load3 = "ok" /\ o3.control = "ok" /\ Agree(o3, FM(o2)) /\ 0 \notin DOMAIN FM(o2)
  IN /\ "panic" \notin DOMAIN o0 /\ "panic" \notin DOMAIN o1
     /\ (o0.control # "corrupted") => Agree(o0, Sp)
     /\ ~hdr.cfg.async => (durable \/ (noticed /\ restored))
Conf_C06F ==
  At => (E.ev = "fault" => /\ (E.c # "ok" => FaultOK(E, store))
                           /\ (E.c = "ok" => AbsorbedOK(E, store)))

\* Drop (then Create on the same handle): the calls succeed; while nothing exists no object is reported; afterwards the
\* directory holds the fresh schema and no object file.  (What later sweeps, flushes and Close must then show - an
\* empty collection in which every value is free again, nothing coming back on disk - is demanded by the ordinary
\* invariants, evaluated against the emptied abstract map.)
Conf_Drop ==
  At => (E.ev = "drop" =>
          /\ E.c = "ok" /\ E.cc = "ok"
          /\ E.probe.count_c = "ok" => E.probe.count = 0
          /\ E.probe.all_c = "ok" => E.probe.all_n = 0
          /\ E.dir.exists /\ E.dir.schema /\ Len(E.dir.files) = 0 /\ Len(E.dir.extra) = 0 /\ Len(E.dir.sidx) = 0
          /\ "xdir" \in DOMAIN E => XDirOK(E.xdir, Empty))

\* C19 (file part): whatever a file of the collection directory contains, calls return; none panics
\* a search that has to read every object file (unindexed field) fails, or has read them all: it never hands back the
\* objects it got before an unreadable file as if they were the answer
ScanOK(sc) ==
  ("count_c" \in DOMAIN sc /\ sc.count_c = "ok") =>
     /\ ("c" \in DOMAIN sc /\ sc.c = "ok") => sc.n = sc.count
     /\ ("and_c" \in DOMAIN sc /\ sc.and_c = "ok") => sc.and_n = sc.count
Conf_C19F ==
  At => (E.ev = "corrupt" => /\ \A i \in 1..Len(E.res) : E.res[i][2] # "panic"
                             /\ "scan" \in DOMAIN E => ScanOK(E.scan))

\* C10 asynchronous writes: visible at once (ReadsOK in async configurations), flushed by
\* threshold / timeout without further calls, complete and committed at Close / FlushAllAndCommit,
\* complete at FlushAll; a deleted pending object never appears on disk
DirMap(d, recs) == [u \in {d.files[i][1] : i \in 1..Len(d.files)} |->
                      LET i == CHOOSE i \in 1..Len(d.files) : d.files[i][1] = u IN IF d.files[i][3] = "ok" THEN recs[d.files[i][2]] ELSE Empty]
NoResurrection(d, recs) ==
  \A i \in 1..Len(d.files) : /\ d.files[i][1] \in DOMAIN store             \* nothing deleted (or never accepted) is on disk
                              /\ d.files[i][3] = "ok"
                              /\ (recs[d.files[i][2]] = store[d.files[i][1]] \/ d.files[i][1] \in unfl)
AllOnDisk(d, recs)  == DirMap(d, recs) = store
Committed(d)        == "sidx" \in DOMAIN d /\ {d.sidx[i] : i \in 1..Len(d.sidx)} = DOMAIN store /\ Len(d.sidx) = Cardinality(DOMAIN store)
Conf_C10 ==
  At =>
  /\ E.ev = "obs" => (ReadsOK(E, store) /\ ("dir" \in DOMAIN E => NoResurrection(E.dir, E.recs)))
  /\ E.ev = "tick" => /\ NoResurrection(E.dir, E.recs)
                       /\ (hdr.cfg.async => E.fl >= 1)        \* the background flusher exists
                       /\ (due => (AllOnDisk(E.dir, E.recs) /\ Committed(E.dir)))
  /\ (E.ev = "flush" /\ "dir" \in DOMAIN E) =>
        /\ E.c = "ok"
        /\ E.what \in {"all", "allcommit"} => AllOnDisk(E.dir, E.recs)
        /\ E.what \in {"allcommit", "commit"} => Committed(E.dir)
  /\ (E.ev = "reopen" /\ E.close /\ "dir" \in DOMAIN E) => (E.c = "ok" /\ AllOnDisk(E.dir, E.recs) /\ Committed(E.dir))
  \* Flush(o) / FlushAndCommit(o): whatever the caller's object holds, what reaches the disk is the accepted version of
  \* that object (unfl no longer contains it) and nothing else: no file for an object that is not stored
  /\ E.ev = "flushone" =>
        /\ E.c = "ok" /\ NoResurrection(E.dir, E.recs)
        /\ E.slot \in DOMAIN store => (E.slot \in DOMAIN DirMap(E.dir, E.recs) /\ DirMap(E.dir, E.recs)[E.slot] = store[E.slot])
        /\ E.commit => Committed(E.dir)

\* C17 (settings part): Create with a compatible schema is idempotent, preserves data, and may switch
\* cache / asynchronous writes at any time without losing pending writes or disturbing the process
Conf_C17 ==
  At =>
  /\ E.ev = "switch" => E.c = "ok"
  /\ E.ev = "obs" => ReadsOK(E, store) /\ QueriesOK(E, store)
  /\ E.ev = "tick" => NoResurrection(E.dir, E.recs)
  /\ (E.ev = "reopen" /\ E.close /\ "dir" \in DOMAIN E) => (E.c = "ok" /\ AllOnDisk(E.dir, E.recs) /\ Committed(E.dir))

\* C17 (shape part): a directory populated under one declaration of the type and opened under another
ResOf(E_, name) == LET i == CHOOSE i \in 1..Len(E_.res) : E_.res[i][1] = name IN E_.res[i][2]
\* the refused Create asked for the opposite cache / async settings: they are neither persisted nor in force (a later
\* write of a synchronous collection is on disk when the call returns)
RefusedKeepsSettings(E_) ==
  "settings_before" \in DOMAIN E_ =>
     /\ E_.settings_after = E_.settings_before
     /\ (~E_.async /\ ResOf(E_, "put") = "ok") => E_.put_files = 1
ShapeOK(E_) ==
  /\ E_.setup = "ok"
  /\ \A i \in 1..Len(E_.res) : E_.res[i][2] # "panic"
  /\ CASE E_.rel = "shape" ->
             \* field added, removed or retyped: every operation is refused with the structure error, nothing is touched
             /\ \A nm \in {"create", "create2", "count", "all", "search", "exist", "schema", "put", "many", "delete", "deleteall", "repair", "flush"} :
                   ResOf(E_, nm) = "structchanged"
             /\ E_.same /\ E_.reopen_a = "ok" /\ E_.count_a = 3
       [] E_.rel = "constraint" ->
             /\ ResOf(E_, "create") = "fielddesc" /\ ResOf(E_, "create2") = "fielddesc" /\ E_.same_after_reads /\ RefusedKeepsSettings(E_)
       [] E_.rel = "ext" ->
             /\ ResOf(E_, "create") = "extmismatch" /\ ResOf(E_, "create2") = "extmismatch" /\ E_.same_after_reads /\ RefusedKeepsSettings(E_)
       [] E_.rel = "compat" ->
             \* Create with a compatible schema is idempotent and preserves data
             /\ \A nm \in {"create", "create2", "count", "all", "search", "exist", "schema", "put", "many", "delete", "flush", "close"} : ResOf(E_, nm) = "ok"
             /\ E_.count = 3 /\ E_.same_after_reads /\ E_.reopen_a = "ok" /\ E_.count_a = 5
       [] OTHER -> FALSE
Conf_C17S == At => (E.ev = "shape" => ShapeOK(E))

\* C15 hooks gate every insertion path
HooksOK(hooks, i, o) ==
  \* Transform of entry i precedes its Validate, which saw the transformed, canonical values
  LET ts == {j \in 1..Len(hooks) : hooks[j].h = "T" /\ hooks[j].i = i}
      vs == {j \in 1..Len(hooks) : hooks[j].h = "V" /\ hooks[j].i = i}
  IN /\ \A v \in vs : /\ \E t \in ts : t < v
                      /\ hooks[v].v = Stored(o)["V"] /\ hooks[v].w = Stored(o)["W"]
Conf_C15 ==
  At =>
  /\ E.ev = "put" =>
       /\ HooksOK(E.hooks, 1, E.o)
       /\ ((E.c = "invalid") <=> ~Valid(Stored(E.o)))
       /\ (E.c = "ok") => (E.after = Stored(E.o) /\ \E j \in 1..Len(E.hooks) : E.hooks[j].h = "V")
  /\ E.ev = "many" =>
       /\ \A i \in 1..Len(E.batch) : ("o" \in DOMAIN E.batch[i] /\ "same_as" \notin DOMAIN E.batch[i]) => HooksOK(E.hooks, i, E.batch[i].o)
       /\ (E.c = "invalid") => (\E i \in 1..Len(E.batch) : "o" \in DOMAIN E.batch[i] /\ ~Valid(Stored(E.batch[i].o)))
       /\ \A i \in 1..E.n : "o" \in DOMAIN E.batch[i] =>
             /\ Valid(Stored(E.batch[i].o))
             /\ ("same_as" \notin DOMAIN E.batch[i]) => (E.batch[i].after = Stored(E.batch[i].o))
  /\ E.ev = "obs" => \A s \in DOMAIN AllMap(E) : Valid(AllMap(E)[s])

\* C16 case constraints canonicalise stored and searched values
CaseQueriesOK(o, A) ==
  "q" \in DOMAIN o => \A i \in 1..Len(o.q) : o.q[i][1][1][2] \in CaseF => QueryOK(o.q[i], A, o)
Conf_C16 ==
  At =>
  /\ (E.ev = "put" /\ E.c = "ok") => (\A f \in CaseF : E.after[f] = CanonV(f, UserT(E.o)[f]))
  /\ (E.ev = "many") => (\A i \in 1..E.n : ("o" \in DOMAIN E.batch[i] /\ "same_as" \notin DOMAIN E.batch[i]) =>
                          (\A f \in CaseF : E.batch[i].after[f] = CanonV(f, UserT(E.batch[i].o)[f])))
  /\ (E.ev = "obs" /\ E.all_c = "ok") =>
       /\ \A s \in DOMAIN AllMap(E), f \in CaseF : AllMap(E)[s][f] = CanonV(f, AllMap(E)[s][f])
       /\ CaseQueriesOK(E, AllMap(E))
  /\ (E.ev = "put" /\ Valid(Stored(E.o))) => ((E.c = "unique") <=> Conflict(pstore, E.slot, Stored(E.o)))
=============================================================================
