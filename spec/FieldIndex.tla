----------------------------- MODULE FieldIndex -----------------------------
(***************************************************************************)
(* The sorted-slice arithmetic of one field index (field_index.go),        *)
(* transcribed: the recursive bisection insertionIndexRec, rangeEqual and  *)
(* the six range extractions, insert and delete, as ALGORITHMIC            *)
(* definitions that follow the Go code statement by statement (0-based     *)
(* positions, as in the code), next to DECLARATIVE definitions of what     *)
(* each must denote.  TLC checks that they agree for every non-increasing  *)
(* sequence up to MaxLen over Vals (all duplicate patterns) and every      *)
(* probe, including probes below, between and above the stored values.     *)
(*                                                                         *)
(* By convention of the code the index is kept in NON-INCREASING order     *)
(* ("the smallest value is at the end"); a result is a contiguous slice    *)
(* of it, represented here by the sequence of its 0-based positions.       *)
(***************************************************************************)
EXTENDS Integers, Sequences, FiniteSets

CONSTANTS Vals,      \* stored values (naturals)
          Probes,    \* probe values
          MaxLen

VARIABLES s, k       \* an index content and a probe: chosen in Init, never changed
vars == <<s, k>>

NonIncr(q) == \A i \in 1..Len(q) - 1 : q[i] >= q[i + 1]
Indexes == {q \in UNION {[1..n -> Vals] : n \in 0..MaxLen} : NonIncr(q)}

At(q, i) == q[i + 1]                   \* 0-based access, as in the code
Last(q)  == Len(q) - 1                 \* lastIndex()
Range(a, b) == [i \in 1..(IF b > a THEN b - a ELSE 0) |-> a + i - 1]   \* positions a .. b-1  (slice [a:b])

-----------------------------------------------------------------------------
(* insertionIndexRec(k, i, j)                                               *)
RECURSIVE InsRec(_, _, _, _)
InsRec(q, key, i, j) ==
  IF Len(q) = 0 THEN 0
  ELSE IF Len(q) = 1 THEN (IF At(q, 0) < key THEN 0 ELSE 1)
  ELSE IF j - i = 1 THEN (IF At(q, i) < key THEN i ELSE j)
  ELSE LET pivot == ((j + 1 - i) \div 2) + i
       IN IF At(q, pivot) < key THEN InsRec(q, key, i, pivot) ELSE InsRec(q, key, pivot, j)
Ins(q, key) == InsRec(q, key, 0, Len(q))

\* what it must be: the number of elements >= key (first position holding a smaller element)
InsSpec(q, key) == Cardinality({i \in 1..Len(q) : q[i] >= key})

\* rangeEqual: j = InsertionIndex-1; for i = j; i >= 0 && equal; i-- {}; i++
RECURSIVE DownWhileEq(_, _, _)
DownWhileEq(q, key, i) == IF i >= 0 /\ At(q, i) = key THEN DownWhileEq(q, key, i - 1) ELSE i
RangeEq(q, key) == LET j == Ins(q, key) - 1 IN <<DownWhileEq(q, key, j) + 1, j>>

\* for i >= 0 { if Index[i].greater(value) break; i-- }
RECURSIVE DownToGreater(_, _, _)
DownToGreater(q, key, i) == IF i >= 0 /\ ~(At(q, i) > key) THEN DownToGreater(q, key, i - 1) ELSE i

SearchEqual(q, key) ==
  LET r == RangeEq(q, key) IN
  IF r[1] = r[2] /\ Len(q) > 0 THEN <<r[1]>> ELSE Range(r[1], r[2] + 1)
SearchNotEqual(q, key) ==
  LET r == RangeEq(q, key) IN Range(0, r[1]) \o Range(r[2] + 1, Len(q))
SearchGreaterOrEqual(q, key) ==
  LET i == Ins(q, key) IN IF i = 0 THEN <<>> ELSE Range(0, i)
SearchGreater(q, key) ==
  LET i0 == Ins(q, key)
      i1 == IF i0 > Last(q) THEN i0 - 1 ELSE i0
      i  == DownToGreater(q, key, i1)
  IN IF i = 0 /\ Len(q) > 0 /\ At(q, 0) > key THEN <<0>> ELSE Range(0, i + 1)
SearchLess(q, key) ==
  LET i == Ins(q, key) IN IF i > Last(q) THEN <<>> ELSE Range(i, Len(q))
SearchLessOrEqual(q, key) ==
  LET i0 == Ins(q, key)
      i1 == IF i0 > Last(q) THEN i0 - 1 ELSE i0
      i  == DownToGreater(q, key, i1)
  IN Range(i + 1, Len(q))

\* what each must denote: the positions whose element satisfies the comparison, in index order
Pos(q, P(_)) == LET S == {i \in 0..Last(q) : P(At(q, i))}
                    RECURSIVE Asc(_, _)
                    Asc(T, acc) == IF T = {} THEN acc ELSE LET m == CHOOSE x \in T : \A y \in T : x <= y IN Asc(T \ {m}, Append(acc, m))
                IN Asc(S, <<>>)

\* insert: i = InsertionIndex; append if i > lastIndex else shift
Insert(q, v) == LET i == Ins(q, v) IN
  IF i > Last(q) THEN Append(q, v) ELSE SubSeq(q, 1, i) \o <<v>> \o SubSeq(q, i + 1, Len(q))
\* delete the element at 0-based position p
DeleteAt(q, p) == SubSeq(q, 1, p) \o SubSeq(q, p + 2, Len(q))
Count(q, v) == Cardinality({i \in 1..Len(q) : q[i] = v})

-----------------------------------------------------------------------------
Init == s \in Indexes /\ k \in Probes
Next == UNCHANGED vars
Spec == Init /\ [][Next]_vars

InsOK   == Ins(s, k) = InsSpec(s, k)
EqOK    == LET P(x) == x = k  IN SearchEqual(s, k) = Pos(s, P)
NeqOK   == LET P(x) == x # k  IN SearchNotEqual(s, k) = Pos(s, P)
GeOK    == LET P(x) == x >= k IN SearchGreaterOrEqual(s, k) = Pos(s, P)
GtOK    == LET P(x) == x > k  IN SearchGreater(s, k) = Pos(s, P)
LtOK    == LET P(x) == x < k  IN SearchLess(s, k) = Pos(s, P)
LeOK    == LET P(x) == x <= k IN SearchLessOrEqual(s, k) = Pos(s, P)
\* inserting keeps the order, adds exactly one occurrence, and places the new element after its equals
InsertOK == (Len(s) < MaxLen /\ k \in Vals) =>
              LET t == Insert(s, k) IN
              /\ NonIncr(t) /\ Len(t) = Len(s) + 1
              /\ \A v \in Vals : Count(t, v) = Count(s, v) + (IF v = k THEN 1 ELSE 0)
              /\ t[InsSpec(s, k) + 1] = k
\* deleting any position keeps the order and removes exactly that occurrence
DeleteOK == \A p \in 0..Last(s) :
              LET t == DeleteAt(s, p) IN
              /\ NonIncr(t) /\ Len(t) = Len(s) - 1
              /\ \A v \in Vals : Count(t, v) = Count(s, v) - (IF v = At(s, p) THEN 1 ELSE 0)
=============================================================================
