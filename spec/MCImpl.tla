------------------------------- MODULE MCImpl -------------------------------
(* Model-checking and test-generation wrapper around SodImpl.               *)
EXTENDS SodImpl, Json, CSV, IOUtils

CONSTANTS OutFile     \* ndjson file the generated histories are appended to ("" = no emission)

AllCfgs   == [cache : BOOLEAN, async : BOOLEAN]
SyncCfgs  == {c \in AllCfgs : ~c.async}
AsyncCfgs == {c \in AllCfgs : c.async}

AnyBatch(b)   == TRUE
\* thinner batch families for test generation
ValidABatch(b) == \A i \in 1..Len(b) : b[i].o.A = 0                     \* A is irrelevant to batch semantics
PairBatch(b)   == Len(b) = MaxBatch /\ ValidABatch(b)
NoBatch(b)     == FALSE

\* one line per generated transition: the BFS-shortest history to the source
\* state followed by the transition (hist is outside the VIEW)
Emit == \/ OutFile = ""
        \/ hist' = hist
        \/ CSVWrite("%1$s", <<ToJson(hist')>>, OutFile)

\* simulation mode (tlc -simulate): random walks of the model; a history is written when it is complete
EmitDeep == \/ Len(hist) <= MaxOps
            \/ OutFile = ""
            \/ CSVWrite("%1$s", <<ToJson(hist)>>, OutFile)
=============================================================================
