------------------------- MODULE SodRepairProofs -------------------------
(* TLAPS proofs, for ARBITRARY sets Slots and Vals and any MaxDamage, of the  *)
(* safety properties TLC checks on SodRepair for small constants.             *)
EXTENDS SodRepair, TLAPS

Inv ==
  /\ ndmg \in Nat
  /\ phase \in {"closed", "loaded", "repaired"}
  /\ report \in {"ok", "corrupted", "none"}
  /\ phase = "closed" => report = "none"
  /\ ControlIff
  /\ RepairConverges
  /\ ndmg = 0 => (sidx = files /\ schema = TRUE /\ (phase # "closed" => midx = files))
  \* the three maps are functions; an object file is never modified in place, so an entry that has its file
  \* describes it
  /\ files \in [DOMAIN files -> Vals] /\ sidx \in [DOMAIN sidx -> Vals] /\ midx \in [DOMAIN midx -> Vals]
  /\ \A u \in DOMAIN sidx \cap DOMAIN files : sidx[u] = files[u]
  /\ phase # "closed" => \A u \in DOMAIN midx \cap DOMAIN files : midx[u] = files[u]

LEMMA EmptyFcn == Empty \in [DOMAIN Empty -> Vals] /\ DOMAIN Empty = {}
  BY DEF Empty

THEOREM InitInv == Init => Inv
<1> SUFFICES ASSUME Init PROVE Inv
  OBVIOUS
<1>1. PICK D \in SUBSET Slots : files \in [D -> Vals]
  BY DEF Init
<1>2. DOMAIN files = D
  BY <1>1
<1>3. files \in [DOMAIN files -> Vals] /\ sidx = files /\ midx = Empty
  BY <1>1, <1>2 DEF Init
<1> QED
  BY <1>3, EmptyFcn DEF Init, Inv, ControlIff, RepairConverges

THEOREM NextInv == Inv /\ [Next]_vars => Inv'
<1> SUFFICES ASSUME Inv, [Next]_vars PROVE Inv'
  OBVIOUS
<1> USE DEF Inv, ControlIff, RepairConverges, Diverged, Closed
<1>1. ASSUME NEW u \in Slots, RmFile(u) PROVE Inv'
  BY <1>1 DEF RmFile, Rem
<1>2. ASSUME NEW u \in Slots, Unindex(u) PROVE Inv'
  BY <1>2 DEF Unindex, Rem
<1>3. ASSUME NEW u \in Slots, NEW v \in Vals, AddFile(u, v) PROVE Inv'
  BY <1>3 DEF AddFile, Upd
<1>4. ASSUME RmSchema PROVE Inv'
  BY <1>4, EmptyFcn DEF RmSchema
<1>5. ASSUME Load PROVE Inv'
  BY <1>5, EmptyFcn DEF Load
<1>6. ASSUME Control PROVE Inv'
  BY <1>6 DEF Control
<1>7. ASSUME Repair PROVE Inv'
  BY <1>7 DEF Repair
<1>8. ASSUME UNCHANGED vars PROVE Inv'
  BY <1>8 DEF vars
<1> QED
  BY <1>1, <1>2, <1>3, <1>4, <1>5, <1>6, <1>7, <1>8 DEF Next

THEOREM Safety == Spec => [](ControlIff /\ RepairConverges /\ NoFalsePositive)
<1>1. Inv => ControlIff /\ RepairConverges /\ NoFalsePositive
  BY DEF Inv, NoFalsePositive, ControlIff, Diverged
<1> QED
  BY InitInv, NextInv, <1>1, PTL DEF Spec

THEOREM KeepsFiles == Spec => [][Repair => files' = files]_vars
<1>1. [Next]_vars => [Repair => files' = files]_vars
  BY DEF Repair, vars
<1> QED
  BY <1>1, PTL DEF Spec
=============================================================================
