------------------------------- MODULE SodAbs -------------------------------
(***************************************************************************)
(* What a user of sod may rely on: one collection is a map from object     *)
(* identifiers to records, with uniqueness constraints, validity gating,   *)
(* all-or-nothing batches, searches denoting exactly the matching objects  *)
(* and search values that are snapshots.                                   *)
(*                                                                         *)
(* Objects are records [K, A, V]: K is a unique indexed field, A an        *)
(* indexed field, V an unindexed field whose value BadV makes the object   *)
(* invalid (the user's Validate hook).  Values are small naturals.         *)
(***************************************************************************)
EXTENDS Integers, Sequences, FiniteSets, SodCore

CONSTANTS Slots,     \* object identifiers
          KVals, AVals, VVals,
          BadV,      \* the V value Validate rejects
          MaxBatch   \* longest batch explored

VARIABLES store,     \* Slots -|-> record
          handle     \* an evaluated, not yet collected search: [ids, at] or NoHandle

avars == <<store, handle>>

Objects  == [K : KVals, A : AVals, V : VVals]
NoHandle == [ids |-> {}, live |-> FALSE]
Empty    == [x \in {} |-> 0]

Valid(o)          == o.V # BadV
Conflict(S, u, o) == \E w \in DOMAIN S : w # u /\ S[w].K = o.K
UniqueInv(S)      == \A a, b \in DOMAIN S : a # b => S[a].K # S[b].K

Upd(S, u, o) == [x \in DOMAIN S \cup {u} |-> IF x = u THEN o ELSE S[x]]
Rem(S, U)    == [x \in DOMAIN S \ U |-> S[x]]

Ops     == {"=", "!=", "<", "<=", ">", ">="}
QFields == {"K", "A", "V"}
Match(S, f, op, p) == {u \in DOMAIN S : Sat(S[u][f], op, p)}

\* outcome of a single write: the class the caller sees
PutClass(S, u, o) == IF ~Valid(o) THEN "invalid" ELSE IF Conflict(S, u, o) THEN "unique" ELSE "ok"

\* ---- batches (C07).  A batch is a sequence of [u, o].
Batches == UNION {[1..n -> [u : Slots, o : Objects]] : n \in 1..MaxBatch}
RECURSIVE ApplySeq(_, _, _)
ApplySeq(S, b, n) == IF n = 0 THEN S ELSE Upd(ApplySeq(S, b, n - 1), b[n].u, b[n].o)
Final(b, u) == b[CHOOSE i \in 1..Len(b) : b[i].u = u /\ \A j \in (i + 1)..Len(b) : b[j].u # u].o
BatchIds(b) == {b[i].u : i \in 1..Len(b)}
\* cases in which the statement of C07 leaves no doubt that the batch must be refused
MustReject(S, b) ==
  \/ \E i \in 1..Len(b) : ~Valid(b[i].o)
  \/ \E i \in 1..Len(b), w \in DOMAIN S : w \notin BatchIds(b) /\ S[w].K = b[i].o.K
  \/ \E x, y \in BatchIds(b) : x # y /\ Final(b, x).K = Final(b, y).K
\* cases in which it must be accepted: no offence of any kind, even transiently
MustAccept(S, b) ==
  /\ \A i \in 1..Len(b) : Valid(b[i].o)
  /\ \A i \in 1..Len(b), w \in DOMAIN S : w # b[i].u => S[w].K # b[i].o.K
  /\ \A i, j \in 1..Len(b) : (i # j /\ b[i].u # b[j].u) => b[i].o.K # b[j].o.K

Init == store = Empty /\ handle = NoHandle

Put(u, o) == /\ store' = IF PutClass(store, u, o) = "ok" THEN Upd(store, u, o) ELSE store
             /\ UNCHANGED handle

PutMany(b) == /\ \/ (~MustReject(store, b) /\ store' = ApplySeq(store, b, Len(b)))
                 \/ (~MustAccept(store, b) /\ store' = store)
              /\ UNCHANGED handle

Del(u)   == store' = Rem(store, {u}) /\ UNCHANGED handle
DelAll   == store' = Empty /\ UNCHANGED handle
DelSearch(f, op, p) == store' = Rem(store, Match(store, f, op, p)) /\ UNCHANGED handle

Eval(f, op, p) == handle' = [ids |-> Match(store, f, op, p), live |-> TRUE] /\ UNCHANGED store
\* collecting returns a subset of the snapshot: the members still stored (C20)
Collected == handle.ids \cap DOMAIN store
Collect   == handle.live /\ handle' = NoHandle /\ UNCHANGED store

Next == \/ \E u \in Slots, o \in Objects : Put(u, o)
        \/ \E b \in Batches : PutMany(b)
        \/ \E u \in Slots : Del(u)
        \/ DelAll
        \/ \E f \in QFields, op \in Ops, p \in KVals \cup AVals : DelSearch(f, op, p) \/ Eval(f, op, p)
        \/ Collect

Spec == Init /\ [][Next]_avars

TypeOK == /\ DOMAIN store \subseteq Slots /\ \A u \in DOMAIN store : store[u] \in Objects
          /\ handle.ids \subseteq Slots

\* C03: uniqueness never violated;  C15: an invalid object is never visible
AbsUnique == UniqueInv(store)
AbsValid  == \A u \in DOMAIN store : Valid(store[u])
\* C07: a batch changes everything or nothing
BatchAtomic == [][\A b \in Batches : PutMany(b) => (store' = store \/ store' = ApplySeq(store, b, Len(b)))]_avars
\* C20: a handle never denotes an object that did not match at evaluation time
SnapshotInv == handle.live => Collected \subseteq handle.ids
=============================================================================
