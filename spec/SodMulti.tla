------------------------------- MODULE SodMulti -------------------------------
(***************************************************************************)
(* TWO collections in one database, one handle: two instances of SodImpl   *)
(* (each with its own files, schema, index, cache, pending writes, flusher) *)
(* interleaved on the steps that concern one collection, and synchronised  *)
(* on the steps of the whole database:                                     *)
(*   Close + new handle   flushes the pending writes of EVERY collection   *)
(*                        and commits every loaded schema                  *)
(*   abandon + new handle                                                  *)
(*   Drop                 removes every collection                         *)
(*   the clock            one tick is one poll period for every flusher    *)
(*                                                                         *)
(* Checked: every invariant of SodImpl for both instances, ClosedDurable   *)
(* for both ("Close, for every collection", C10), and the frame property   *)
(* that a call on one collection changes nothing of the other.  Deviation  *)
(* CloseFlushesOne: Close only flushes the collection it was reached       *)
(* through - the second one loses its pending writes - must break          *)
(* ClosedDurable of B (self-test of the model).                            *)
(*                                                                         *)
(* Binding: the recordings of real histories on two collections are        *)
(* judged by Conf_X of SodTrace (xput / xdel / xflush, Close of both).     *)
(***************************************************************************)
EXTENDS Integers, Sequences, FiniteSets, TLC

CONSTANTS Slots, KVals, AVals, VVals, BadV, MaxBatch, MaxOps, Cfgs, Thr, Tmo,
          WithFlusher, WithSwitch, WithGet, WithHandle, WithFlushOne, WithDrop, WithRepair, Dev, BatchFilter(_)

VARIABLES af, adi, adc, alo, ami, acf, aca, ape, ast, asl, aas, ahn, are, ahi,
          bf, bdi, bdc, blo, bmi, bcf, bca, bpe, bst, bsl, bas, bhn, bre, bhi

avars == <<af, adi, adc, alo, ami, acf, aca, ape, ast, asl, aas, ahn, are, ahi>>
bvars == <<bf, bdi, bdc, blo, bmi, bcf, bca, bpe, bst, bsl, bas, bhn, bre, bhi>>
vars  == <<avars, bvars>>
\* (the operation logs and last results are observation only: outside the VIEW, as in MCImpl)
view  == <<af, adi, adc, alo, ami, acf, aca, ape, ast, asl, aas, ahn, bf, bdi, bdc, blo, bmi, bcf, bca, bpe, bst, bsl, bas, bhn>>

A == INSTANCE SodImpl WITH files <- af, didx <- adi, dcfg <- adc, loaded <- alo, midx <- ami, cfg <- acf, cache <- aca,
                           pending <- ape, started <- ast, slept <- asl, astore <- aas, hnd <- ahn, res <- are, hist <- ahi
B == INSTANCE SodImpl WITH files <- bf, didx <- bdi, dcfg <- bdc, loaded <- blo, midx <- bmi, cfg <- bcf, cache <- bca,
                           pending <- bpe, started <- bst, slept <- bsl, astore <- bas, hnd <- bhn, res <- bre, hist <- bhi

AllCfgs   == [cache : BOOLEAN, async : BOOLEAN]
AsyncCfgs == {c \in AllCfgs : c.async}
NoBatch(b) == FALSE

Init == A!Init /\ B!Init

\* the clock: a collection without a running flusher does not notice it
AIdle == ~(WithFlusher /\ ast /\ alo /\ acf.async)
BIdle == ~(WithFlusher /\ bst /\ blo /\ bcf.async)
Tick == /\ (A!Tick \/ (AIdle /\ UNCHANGED avars))
        /\ (B!Tick \/ (BIdle /\ UNCHANGED bvars))
        /\ ~(AIdle /\ BIdle)

\* deviation: B's pending writes are dropped, not flushed, by Close
BCloseNoFlush(create) ==
  /\ Len(bhi) <= MaxOps /\ ~bhn.live /\ UNCHANGED bhn /\ bhi' = Append(bhi, [op |-> "reopen", close |-> TRUE, create |-> create])
  /\ bf' = bf /\ (IF blo THEN bdi' = bmi /\ bdc' = bcf ELSE UNCHANGED <<bdi, bdc>>)
  /\ bca' = A!Empty /\ bpe' = A!Empty /\ bst' = FALSE /\ bsl' = 0
  /\ IF create THEN blo' = TRUE /\ bmi' = bdi' /\ bcf' = bdc' ELSE blo' = FALSE /\ bmi' = A!Empty /\ bcf' = bcf
  /\ bre' = "ok" /\ UNCHANGED bas

Next ==
  \/ A!CollNext /\ UNCHANGED bvars
  \/ B!CollNext /\ UNCHANGED avars
  \/ \E c \in BOOLEAN : A!Reopen(c) /\ (IF "CloseFlushesOne" \in Dev THEN BCloseNoFlush(c) ELSE B!Reopen(c))
  \/ \E c \in BOOLEAN : A!Abandon(c) /\ B!Abandon(c)
  \/ \E c \in Cfgs, d \in Cfgs : A!DropCreate(c) /\ B!DropCreate(d)
  \/ Tick

Spec == Init /\ [][Next]_vars

-----------------------------------------------------------------------------
BothOK ==
  /\ A!TypeOK /\ A!RefOK /\ A!IndexAgree /\ A!ExistOK /\ A!UniqueOK /\ A!ValidOK /\ A!SyncDurable /\ A!FilesOK /\ A!PendingOK /\ A!ControlOK
  /\ B!TypeOK /\ B!RefOK /\ B!IndexAgree /\ B!ExistOK /\ B!UniqueOK /\ B!ValidOK /\ B!SyncDurable /\ B!FilesOK /\ B!PendingOK /\ B!ControlOK

\* "Close (for every collection)": after Close both directories equal their abstract maps, both indexes are committed
CloseDurableA == [][(\E c \in BOOLEAN : A!Reopen(c)) => (af' = aas' /\ adi' = [u \in DOMAIN aas' |-> A!Ix(aas'[u])])]_vars
CloseDurableB == [][(\E c \in BOOLEAN : A!Reopen(c)) => (bf' = bas' /\ bdi' = [u \in DOMAIN bas' |-> B!Ix(bas'[u])])]_vars
\* a call on one collection changes nothing of the other
Frame == [][(A!CollNext => UNCHANGED bvars) /\ (B!CollNext => UNCHANGED avars)]_vars
=============================================================================
