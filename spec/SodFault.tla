------------------------------ MODULE SodFault ------------------------------
(***************************************************************************)
(* C06 (storage-fault part) at design level, synchronous writes.  As in    *)
(* SodDisk every mutating call is a sequence of file-system steps; here    *)
(* the process does not die: ONE step of ONE call FAILS (the system call   *)
(* returns an error and has no effect) and the call carries on the way the *)
(* code does:                                                              *)
(*   InsertOrUpdate      write the object (temporary file, rename), index  *)
(*                       it in memory, commit the schema (temporary file,  *)
(*                       rename); any failing step ends the call           *)
(*   InsertOrUpdateMany  the same per object; a failing object ends the    *)
(*                       loop, the schema is committed all the same        *)
(*   Delete              unindex in memory, remove the file, commit; a     *)
(*                       failing remove does not prevent the commit        *)
(* The commit writes whatever the in-memory index is at that moment.       *)
(*                                                                         *)
(* When the failed call has returned, the state is judged as the property  *)
(* says: nothing changed for anybody (Silent), or somebody is told         *)
(* (Control on the live handle, or the first load of a fresh handle,       *)
(* compares identifiers) and Repair - rebuild every entry from its file -  *)
(* restores agreement.  With Dev = {} TLC finds the known finding K02;     *)
(* with Dev = {"CommitFault"} "FaultSafe or the recorded shape" is an      *)
(* invariant: in the bounded design no failing step leaves anything else.  *)
(* The shape is tied to the POSITION of the fault (after an object file    *)
(* of the call was replaced, or inside the writing of the schema), which   *)
(* is what the trace specification demands of recorded fault events (`at`).*)
(***************************************************************************)
EXTENDS Integers, Sequences, FiniteSets, TLC

CONSTANTS Slots, KVals, AVals, MaxOps, Dev

VARIABLES files,   \* slot -|-> object                  object files
          dix,     \* slot -|-> indexed values          index inside the committed schema.json
          midx,    \* slot -|-> indexed values          index in memory (live handle)
          astore,  \* abstract map before the call in progress / after the last call that succeeded
          post,    \* abstract map the call in progress would acknowledge
          todo,    \* remaining steps of the call in progress
          nops,
          failed,  \* a step has failed (at most one per behaviour)
          at       \* where: [obj |-> object files already replaced / removed by this call, tgt |-> "obj" | "sch"]

vars == <<files, dix, midx, astore, post, todo, nops, failed, at>>

Objects == [K : KVals, A : AVals]
Empty == [x \in {} |-> 0]
Ix(o) == o
Upd(S, u, o) == [x \in DOMAIN S \cup {u} |-> IF x = u THEN o ELSE S[x]]
Rem(S, U)    == [x \in DOMAIN S \ U |-> S[x]]
IxOf(S)      == [u \in DOMAIN S |-> Ix(S[u])]

Init == /\ files = Empty /\ dix = Empty /\ midx = Empty /\ astore = Empty /\ post = Empty
        /\ todo = <<>> /\ nops = 0 /\ failed = FALSE /\ at = [obj |-> 0, tgt |-> "none"]

Idle == todo = <<>>
Conflict(S, u, o) == \E w \in DOMAIN S : w # u /\ S[w].K = o.K

\* steps: g = group (the object number inside the call, 0 = the schema commit)
ObjSteps(g, u, o) == <<[k |-> "tmp", g |-> g, tgt |-> "obj"], [k |-> "renameobj", g |-> g, tgt |-> "obj", u |-> u, o |-> o]>>
SchSteps         == <<[k |-> "tmp", g |-> 0, tgt |-> "sch"], [k |-> "renamesch", g |-> 0, tgt |-> "sch"]>>

BeginPut(u, o) ==
  /\ Idle /\ ~failed /\ nops < MaxOps /\ ~Conflict(astore, u, o)
  /\ post' = Upd(astore, u, o)
  /\ todo' = ObjSteps(1, u, o) \o SchSteps
  /\ nops' = nops + 1 /\ at' = [obj |-> 0, tgt |-> "none"]
  /\ UNCHANGED <<files, dix, midx, astore, failed>>

\* a batch of two objects, each acceptable against the live index and against the other
BeginMany(u, o, v, p) ==
  /\ Idle /\ ~failed /\ nops < MaxOps /\ u # v /\ o.K # p.K /\ ~Conflict(astore, u, o) /\ ~Conflict(astore, v, p)
  /\ post' = Upd(Upd(astore, u, o), v, p)
  /\ todo' = ObjSteps(1, u, o) \o ObjSteps(2, v, p) \o SchSteps
  /\ nops' = nops + 1 /\ at' = [obj |-> 0, tgt |-> "none"]
  /\ UNCHANGED <<files, dix, midx, astore, failed>>

\* Delete: the entry leaves the in-memory index before the file is touched
BeginDel(u) ==
  /\ Idle /\ ~failed /\ nops < MaxOps /\ u \in DOMAIN astore
  /\ post' = Rem(astore, {u})
  /\ midx' = Rem(midx, {u})
  /\ todo' = <<[k |-> "remove", g |-> 1, tgt |-> "obj", u |-> u]>> \o SchSteps
  /\ nops' = nops + 1 /\ at' = [obj |-> 0, tgt |-> "none"]
  /\ UNCHANGED <<files, dix, astore, failed>>

\* one system call that succeeds
Step ==
  /\ ~Idle
  /\ LET st == Head(todo) IN
     /\ files' = CASE st.k = "renameobj" -> Upd(files, st.u, st.o)
                   [] st.k = "remove"    -> Rem(files, {st.u})
                   [] OTHER              -> files
     \* the object is indexed in memory right after its file is in place
     /\ midx'  = IF st.k = "renameobj" THEN Upd(midx, st.u, Ix(st.o)) ELSE midx
     \* the commit writes the in-memory index as it is now
     /\ dix'   = IF st.k = "renamesch" THEN midx ELSE dix
     /\ at'    = IF st.k \in {"renameobj", "remove"} THEN [at EXCEPT !.obj = @ + 1] ELSE at
  /\ todo' = Tail(todo)
  \* a call that was not hit by the fault is acknowledged when its last step is done
  /\ astore' = IF Len(todo) = 1 /\ ~failed THEN post ELSE astore
  /\ UNCHANGED <<post, nops, failed>>

\* the next system call fails: no effect; what the call does next depends on which call it is
IsDel == \E i \in 1..Len(todo) : todo[i].k = "remove"
IsMany == \E i \in 1..Len(todo) : todo[i].g = 2
Fail ==
  /\ ~Idle /\ ~failed
  /\ failed' = TRUE
  /\ at' = [at EXCEPT !.tgt = Head(todo).tgt]
  /\ LET st == Head(todo) IN
     todo' = IF st.g = 0 THEN <<>>                                         \* the commit failed: the call returns
             ELSE IF IsDel \/ IsMany \/ (st.g = 2) THEN SchSteps           \* Delete / batch: the commit is done all the same
             ELSE <<>>                                                      \* InsertOrUpdate: the call returns
  /\ UNCHANGED <<files, dix, midx, astore, post, nops>>

Next == \/ \E u \in Slots, o \in Objects : BeginPut(u, o)
        \/ \E u, v \in Slots, o, p \in Objects : BeginMany(u, o, v, p)
        \/ \E u \in Slots : BeginDel(u)
        \/ Step
        \/ Fail
Spec == Init /\ [][Next]_vars

-----------------------------------------------------------------------------
(* Judgement once the call the fault hit has returned                       *)
Returned == Idle /\ failed
Sm == astore
Sp == post

Silent       == files = Sm /\ midx = IxOf(Sm) /\ dix = IxOf(Sm)
LiveNoticed  == DOMAIN midx # DOMAIN files                 \* Control on the live handle
FreshNoticed == DOMAIN dix # DOMAIN files                  \* the first load of a fresh handle
OldOrNew     == \A u \in DOMAIN files : (u \in DOMAIN Sm /\ files[u] = Sm[u]) \/ (u \in DOMAIN Sp /\ files[u] = Sp[u])
Clash        == \E u, v \in DOMAIN files : u # v /\ files[u].K = files[v].K
NoLoss       == \A u \in DOMAIN Sm : u \in DOMAIN Sp => u \in DOMAIN files      \* an object the call was not deleting keeps its file
Restored     == OldOrNew /\ NoLoss /\ ~Clash               \* Repair rebuilds every entry from its file and succeeds

FaultSafe == Returned => (Silent \/ ((LiveNoticed \/ FreshNoticed) /\ Restored))

\* the known finding, and nothing else: the fault fell after an object file of the call had been replaced or inside the
\* writing of the schema; the files are fine, the live handle describes exactly the files, and whatever the committed
\* index says otherwise is the OLD value of an object the call rewrote
Shape ==
  /\ "CommitFault" \in Dev
  /\ at.obj >= 1 \/ at.tgt = "sch"
  /\ Restored /\ midx = IxOf(files)
  /\ \A u \in DOMAIN files \cap DOMAIN dix :
        dix[u] # Ix(files[u]) => (u \in DOMAIN Sm /\ dix[u] = Ix(Sm[u]) /\ u \in DOMAIN Sp /\ files[u] = Sp[u])

FaultSafeOrKnown == Returned => (Silent \/ ((LiveNoticed \/ FreshNoticed) /\ Restored) \/ Shape)

\* a fault that falls before anything of the call was replaced, outside the schema, leaves no trace at all or a noticed one
EarlyFaultSafe == (Returned /\ at.obj = 0 /\ at.tgt # "sch") => (Silent \/ ((LiveNoticed \/ FreshNoticed) /\ Restored))

\* without a fault the three views always agree between calls
QuiescentOK == (Idle /\ ~failed) => (files = astore /\ midx = IxOf(astore) /\ dix = IxOf(astore))
=============================================================================
