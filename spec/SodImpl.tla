------------------------------- MODULE SodImpl -------------------------------
(***************************************************************************)
(* The design of sod as implemented: one collection of one handle, with    *)
(* the object files, the on-disk schema (which embeds the whole index and  *)
(* the storage settings), the lazily loaded in-memory index, the object    *)
(* cache, the pending (asynchronous) writes, the background flusher and    *)
(* its sleep counter, Close / reopen / abandon and settings switches.      *)
(*                                                                         *)
(* One action per public call (its linearization point is the return of    *)
(* the call, inside the handle's write lock); environment steps (flusher   *)
(* poll, clock tick) are separate actions.  `astore` is the specification  *)
(* variable: the abstract map of SodAbs, updated by the abstract meaning   *)
(* of every acknowledged call.  The refinement invariants say that every   *)
(* read path of the implementation state equals astore.                    *)
(*                                                                         *)
(* Dev is a set of NAMED DEVIATIONS: behaviours the pinned tree had that    *)
(* break a listed property.  With Dev = {} the model is the intended       *)
(* design and all invariants hold; switching one deviation on must make    *)
(* the corresponding invariant fail (checked by the self-test).            *)
(*                                                                         *)
(* The same module generates tests: `hist` records the operations with     *)
(* their arguments (never observations); it is outside the VIEW, and the   *)
(* action constraint Emit writes hist' for every generated transition.     *)
(***************************************************************************)
EXTENDS Integers, Sequences, FiniteSets, TLC, SodCore

CONSTANTS Slots, KVals, AVals, VVals, BadV, MaxBatch,
          MaxOps,        \* longest generated history
          Cfgs,          \* set of [cache : BOOLEAN, async : BOOLEAN] explored
          Thr, Tmo,      \* flusher threshold (objects) and timeout (ticks)
          WithFlusher,   \* BOOLEAN: explore flusher / clock steps
          WithSwitch,    \* BOOLEAN: explore settings switches through Create
          WithGet,       \* BOOLEAN: explore explicit Get steps (cache fill)
          WithHandle,    \* BOOLEAN: explore searches evaluated now and collected after later writes (C20)
          WithFlushOne,  \* BOOLEAN: explore Flush(o) / FlushAndCommit(o) of single objects
          WithDrop,      \* BOOLEAN: explore Drop (followed by Create) on the live handle
          WithRepair,    \* BOOLEAN: explore Repair called on the live, healthy handle
          Dev,           \* enabled deviations
          BatchFilter(_) \* which batches are explored (generation configs thin them out)

VARIABLES files,    \* Slots -|-> object : object files of the collection directory
          didx,     \* Slots -|-> [K, A] : index serialised in schema.json
          dcfg,     \* settings serialised in schema.json
          loaded,   \* the handle has the schema in memory
          midx,     \* Slots -|-> [K, A] : in-memory index (meaningful when loaded)
          cfg,      \* in-memory settings
          cache,    \* Slots -|-> object
          pending,  \* Slots -|-> object : accepted, not yet written
          started,  \* flusher goroutine running
          slept,    \* ticks since the flusher last flushed
          astore,   \* specification variable: the abstract map
          hnd,      \* an evaluated, not yet collected search: [live, ids, age]
          res,      \* class returned by the last call (observation only)
          hist      \* operations so far (test generation only)

vars == <<files, didx, dcfg, loaded, midx, cfg, cache, pending, started, slept, astore, hnd, res, hist>>
view == <<files, didx, dcfg, loaded, midx, cfg, cache, pending, started, slept, astore, hnd>>

Abs == INSTANCE SodAbs WITH store <- astore, handle <- [ids |-> {}, live |-> FALSE]

Objects == [K : KVals, A : AVals, V : VVals]
Empty   == [x \in {} |-> 0]
Ix(o)   == [K |-> o.K, A |-> o.A]
ZeroObj == [K |-> 0, A |-> 0, V |-> 0]
None    == [K |-> -1, A |-> -1, V |-> -1]     \* "no such object" (records only compare with records)
Upd(S, u, o) == [x \in DOMAIN S \cup {u} |-> IF x = u THEN o ELSE S[x]]
Rem(S, U)    == [x \in DOMAIN S \ U |-> S[x]]
Over(S, P)   == [x \in DOMAIN S \cup DOMAIN P |-> IF x \in DOMAIN P THEN P[x] ELSE S[x]]
Valid(o)     == o.V # BadV

MustCache == cfg.cache \/ cfg.async

\* a search value held by the caller across later writes (at most MaxAge of them)
NoH    == [live |-> FALSE, ids |-> {}, age |-> 0]
MaxAge == 2
HWrite == /\ (hnd.live => hnd.age < MaxAge)
          /\ hnd' = IF hnd.live THEN [hnd EXCEPT !.age = @ + 1] ELSE hnd
HSame  == UNCHANGED hnd

Init == /\ files = Empty /\ didx = Empty /\ midx = Empty /\ cache = Empty /\ pending = Empty
        /\ cfg \in Cfgs /\ dcfg = cfg /\ loaded = TRUE      \* Open + Create
        /\ started = FALSE /\ slept = 0 /\ astore = Empty /\ res = "ok" /\ hnd = NoH
        /\ hist = <<[op |-> "cfg", cache |-> cfg.cache, async |-> cfg.async]>>

Room     == Len(hist) <= MaxOps
Log(rec) == hist' = Append(hist, rec)
Commit(ix, c) == didx' = ix /\ dcfg' = c

-----------------------------------------------------------------------------
(* lazy load of the schema by the first call after Open                     *)
Load == /\ ~loaded
        /\ loaded' = TRUE /\ midx' = didx /\ cfg' = dcfg
        /\ started' = FALSE
        /\ UNCHANGED <<files, didx, dcfg, cache, pending, slept, astore, res, hist, hnd>>

Ready == loaded /\ Room

\* the flusher goroutine is started by a schema access of an async collection
Started == started' = (started \/ cfg.async)

LiveConflict(ix, u, o) == \E w \in DOMAIN ix : w # u /\ ix[w].K = o.K

-----------------------------------------------------------------------------
(* InsertOrUpdate                                                           *)
Put(u, o) ==
  /\ Ready /\ Log([op |-> "put", slot |-> u, o |-> o]) /\ Started /\ HWrite
  /\ IF ~Valid(o)
     THEN /\ res' = "invalid"
          /\ UNCHANGED <<files, didx, dcfg, loaded, midx, cfg, cache, pending, slept, astore>>
     ELSE IF LiveConflict(midx, u, o)
     THEN /\ res' = "unique"
          \* deviation: the object is put in the cache before the constraint check
          /\ cache' = IF MustCache /\ "CacheBeforeCheck" \in Dev THEN Upd(cache, u, o) ELSE cache
          /\ UNCHANGED <<files, didx, dcfg, loaded, midx, cfg, pending, slept, astore>>
     ELSE /\ res' = "ok"
          /\ cache' = IF MustCache THEN Upd(cache, u, o) ELSE cache
          /\ midx' = Upd(midx, u, Ix(o))
          /\ IF cfg.async
             THEN pending' = Upd(pending, u, o) /\ UNCHANGED <<files, didx, dcfg>>
             ELSE files' = Upd(files, u, o) /\ Commit(midx', cfg) /\ UNCHANGED pending
          /\ astore' = Upd(astore, u, o)
          /\ UNCHANGED <<loaded, cfg, slept>>

-----------------------------------------------------------------------------
(* InsertOrUpdateMany: validate everything against a temporary index built *)
(* member by member and against the live index, then insert, then commit   *)
Batches == Abs!Batches
TmpAt(b, n) == [w \in {b[i].u : i \in 1..n} |-> Ix(Abs!Final(SubSeq(b, 1, n), w))]
CodeRejects(ix, b) ==
  \E i \in 1..Len(b) : \/ ~Valid(b[i].o)
                       \/ LiveConflict(TmpAt(b, i - 1), b[i].u, b[i].o)
                       \/ LiveConflict(ix, b[i].u, b[i].o)
BatchClass(ix, b) ==
  LET i == CHOOSE i \in 1..Len(b) : (~Valid(b[i].o) \/ LiveConflict(TmpAt(b, i - 1), b[i].u, b[i].o) \/ LiveConflict(ix, b[i].u, b[i].o))
                                    /\ \A j \in 1..(i - 1) : ~(~Valid(b[j].o) \/ LiveConflict(TmpAt(b, j - 1), b[j].u, b[j].o) \/ LiveConflict(ix, b[j].u, b[j].o))
  IN IF ~Valid(b[i].o) THEN "invalid" ELSE "unique"
BOver(S, b, g(_)) == [x \in DOMAIN S \cup {b[i].u : i \in 1..Len(b)} |->
                        IF x \in {b[i].u : i \in 1..Len(b)} THEN g(Abs!Final(b, x)) ELSE S[x]]
Id(o) == o
PutMany(b) ==
  /\ Ready /\ Log([op |-> "many", batch |-> [i \in 1..Len(b) |-> [slot |-> b[i].u, o |-> b[i].o]]]) /\ Started /\ HWrite
  /\ IF CodeRejects(midx, b)
     THEN /\ res' = BatchClass(midx, b)
          /\ UNCHANGED <<files, didx, dcfg, loaded, midx, cfg, cache, pending, slept, astore>>
     ELSE /\ res' = "ok"
          /\ cache' = IF MustCache THEN BOver(cache, b, Id) ELSE cache
          /\ midx' = BOver(midx, b, Ix)
          /\ IF cfg.async
             THEN pending' = BOver(pending, b, Id) /\ UNCHANGED files
             ELSE files' = BOver(files, b, Id) /\ UNCHANGED pending
          /\ Commit(midx', cfg)          \* the batch call commits in both modes
          /\ astore' = BOver(astore, b, Id)
          /\ UNCHANGED <<loaded, cfg, slept>>

-----------------------------------------------------------------------------
(* Delete, DeleteAll, Search(...).Delete                                    *)
Drop(U) ==
  /\ cache'   = IF MustCache THEN Rem(cache, U) ELSE cache
  /\ pending' = IF MustCache THEN Rem(pending, U) ELSE pending
  /\ midx' = Rem(midx, U)
  /\ files' = Rem(files, U)
  /\ Commit(midx', cfg)
  /\ astore' = Rem(astore, U)
  /\ res' = "ok"
  /\ UNCHANGED <<loaded, cfg, slept>>

Del(u)  == Ready /\ Log([op |-> "del", slot |-> u]) /\ Started /\ HWrite /\ Drop({u})
DelAll  == Ready /\ Log([op |-> "delall"]) /\ Started /\ HWrite /\ Drop(DOMAIN midx)
IdxMatch(f, op, p) == {u \in DOMAIN astore : Sat(astore[u][f], op, p)}
DelSearch(f, op, p) == /\ Ready /\ Log([op |-> "delsearch", q |-> <<[f |-> f, op |-> op, p |-> p]>>]) /\ Started /\ HWrite
                       /\ Drop(IdxMatch(f, op, p) \cap DOMAIN midx)

-----------------------------------------------------------------------------
(* A search evaluated now (twice: one twin is collected at once, the other  *)
(* after the following writes) and collected later                          *)
Eval(f, op, p) ==
  /\ Ready /\ WithHandle /\ ~hnd.live
  /\ Log([op |-> "eval2", q |-> <<[f |-> f, op |-> op, p |-> p]>>]) /\ Started
  /\ hnd' = [live |-> TRUE, ids |-> IdxMatch(f, op, p) \cap DOMAIN midx, age |-> 0]
  /\ res' = "ok"
  /\ UNCHANGED <<files, didx, dcfg, loaded, midx, cfg, cache, pending, slept, astore>>
Collect ==
  /\ Ready /\ hnd.live /\ Log([op |-> "collect2"]) /\ Started
  /\ hnd' = NoH /\ res' = "ok"
  /\ UNCHANGED <<files, didx, dcfg, loaded, midx, cfg, cache, pending, slept, astore>>
\* C20 at design level: what is collected never contains an object that did not match at evaluation time
Collected == hnd.ids \cap DOMAIN astore
SnapshotOK == hnd.live => Collected \subseteq hnd.ids

-----------------------------------------------------------------------------
(* Get: the read path, with cache fill                                      *)
ReadView(u) == IF MustCache /\ u \in DOMAIN cache THEN cache[u]
               ELSE IF u \in DOMAIN files THEN files[u] ELSE None
Get(u) ==
  /\ Ready /\ WithGet /\ ~hnd.live /\ Log([op |-> "get", slot |-> u]) /\ Started /\ HSame
  /\ res' = IF ReadView(u) = None THEN "notfound" ELSE "ok"
  /\ cache' = IF ~MustCache \/ u \in DOMAIN cache THEN cache
              ELSE IF u \in DOMAIN files THEN Upd(cache, u, files[u])
              \* deviation: a failed lookup leaves the zero object in the cache
              ELSE IF "CacheFailedGet" \in Dev THEN Upd(cache, u, ZeroObj) ELSE cache
  /\ UNCHANGED <<files, didx, dcfg, loaded, midx, cfg, pending, slept, astore>>

-----------------------------------------------------------------------------
(* Flushes, Close, reopen, abandon                                          *)
FlushEffect == files' = Over(files, pending) /\ pending' = Empty

FlushAll(commit) ==
  /\ Ready /\ ~hnd.live /\ Log([op |-> "flush", what |-> IF commit THEN "allcommit" ELSE "all"]) /\ Started /\ HSame
  /\ FlushEffect
  /\ IF commit THEN Commit(midx, cfg) ELSE UNCHANGED <<didx, dcfg>>
  /\ res' = "ok"
  /\ UNCHANGED <<loaded, midx, cfg, cache, slept, astore>>

\* Flush(o) / FlushAndCommit(o): the ACCEPTED pending version of one object reaches disk; the object the caller
\* passes only identifies it (its field values are whatever the caller's memory holds by now).  FlushAndCommit
\* commits first, then flushes (as the code does).  An object that is not pending is left alone.
\* Deviation FlushWritesArgument (the code as found): the caller's object itself is written - values that
\* were never accepted, or an object that is not stored at all, reach the directory.
FlushOne(u, commit) ==
  /\ Ready /\ WithFlushOne /\ ~hnd.live /\ HSame /\ Log([op |-> "flushone", u |-> u, commit |-> commit]) /\ Started
  /\ IF commit THEN Commit(midx, cfg) ELSE UNCHANGED <<didx, dcfg>>
  /\ IF "FlushWritesArgument" \in Dev
     THEN files' = Upd(files, u, ZeroObj) /\ pending' = Rem(pending, {u})
     ELSE IF u \in DOMAIN pending
          THEN files' = Upd(files, u, pending[u]) /\ pending' = Rem(pending, {u})
          ELSE UNCHANGED <<files, pending>>
  /\ res' = "ok"
  /\ UNCHANGED <<loaded, midx, cfg, cache, slept, astore>>

\* Drop() removes the whole database directory; the collection is then created again (Create with settings c)
\* on the SAME handle.  Nothing of the dropped database survives: no file, no index entry, no cached object, no
\* pending write, no constraint.  Deviation DropKeepsMemory (the code as found): only the directory is removed;
\* the loaded schema with its index, the cache and the pending writes stay in memory, so the dropped objects are
\* still counted, still reserve their unique values, and come back on disk with the next flush / commit.
DropCreate(c) ==
  /\ Ready /\ WithDrop /\ ~hnd.live /\ HSame /\ Log([op |-> "drop", cache |-> c.cache, async |-> c.async])
  /\ files' = Empty /\ astore' = Empty /\ slept' = 0 /\ res' = "ok" /\ loaded' = TRUE
  /\ IF "DropKeepsMemory" \in Dev
     THEN /\ didx' = midx /\ dcfg' = cfg /\ UNCHANGED <<midx, cfg, cache, pending, started>>
     ELSE /\ didx' = Empty /\ dcfg' = c /\ midx' = Empty /\ cfg' = c /\ cache' = Empty /\ pending' = Empty /\ started' = FALSE

\* Repair on a live handle whose index is in order changes nothing: an object whose accepted write is still
\* pending has no file yet, but it is not "missing".  Deviation RepairDropsPending (the code as found): Repair
\* compares the index with the directory listing only and drops the entries of pending objects.
RepairLive ==
  /\ Ready /\ WithRepair /\ ~hnd.live /\ HSame /\ Log([op |-> "repair"]) /\ Started
  /\ midx' = IF "RepairDropsPending" \in Dev THEN [u \in DOMAIN midx \cap DOMAIN files |-> midx[u]] ELSE midx
  /\ res' = "ok"
  /\ UNCHANGED <<files, didx, dcfg, loaded, cfg, cache, pending, slept, astore>>

\* Close (flush every collection, commit every loaded schema), then a new handle
Reopen(create) ==
  /\ Room /\ ~hnd.live /\ HSame /\ Log([op |-> "reopen", close |-> TRUE, create |-> create])
  /\ files' = Over(files, pending)
  /\ IF loaded THEN Commit(midx, cfg) ELSE UNCHANGED <<didx, dcfg>>
  /\ cache' = Empty /\ pending' = Empty /\ started' = FALSE /\ slept' = 0
  /\ IF create THEN loaded' = TRUE /\ midx' = didx' /\ cfg' = dcfg'
               ELSE loaded' = FALSE /\ midx' = Empty /\ cfg' = cfg
  /\ res' = "ok" /\ UNCHANGED astore

\* a new handle without Close: only promised to be harmless in synchronous mode
Abandon(create) ==
  /\ Room /\ ~cfg.async /\ (loaded \/ ~dcfg.async) /\ ~hnd.live /\ HSame
  /\ Log([op |-> "reopen", close |-> FALSE, create |-> create])
  /\ cache' = Empty /\ pending' = Empty /\ started' = FALSE /\ slept' = 0
  /\ IF create THEN loaded' = TRUE /\ midx' = didx /\ cfg' = dcfg
               ELSE loaded' = FALSE /\ midx' = Empty /\ cfg' = cfg
  /\ res' = "ok" /\ UNCHANGED <<files, didx, dcfg, astore>>

\* Create on an existing collection with other settings
MustCacheOf(c) == c.cache \/ c.async
Switch(c) ==
  /\ Ready /\ WithSwitch /\ c # cfg /\ ~hnd.live /\ HSame
  /\ Log([op |-> "switch", cache |-> c.cache, async |-> c.async]) /\ Started
  /\ cfg' = c /\ Commit(midx, c)
  \* design: pending writes are flushed before asynchronous mode is left;
  \* deviation SwitchStrandsPending: they stay in the pending store, unreadable and never flushed
  /\ IF cfg.async /\ ~c.async /\ "SwitchStrandsPending" \notin Dev
     THEN FlushEffect ELSE UNCHANGED <<files, pending>>
  \* design: when caching stops the cache is dropped (later writes would not maintain it);
  \* deviation SwitchKeepsCache: it is kept, and comes back stale when caching is switched on again
  /\ cache' = IF MustCache /\ ~MustCacheOf(c) /\ "SwitchKeepsCache" \notin Dev THEN Empty ELSE cache
  /\ res' = "ok"
  /\ UNCHANGED <<loaded, midx, slept, astore>>

-----------------------------------------------------------------------------
(* Environment: the flusher goroutine and the clock                         *)
FlushDue == Cardinality(DOMAIN pending) >= Thr \/ slept >= Tmo
FlusherPoll ==
  /\ WithFlusher /\ started /\ loaded /\ cfg.async /\ FlushDue /\ Room
  /\ Log([op |-> "poll"])
  /\ FlushEffect /\ Commit(midx, cfg) /\ slept' = 0
  /\ UNCHANGED <<loaded, midx, cfg, cache, started, astore, res, hnd>>
Tick ==
  /\ WithFlusher /\ started /\ loaded /\ cfg.async /\ ~FlushDue /\ Room
  /\ Log([op |-> "tick"])
  /\ slept' = slept + 1
  /\ UNCHANGED <<files, didx, dcfg, loaded, midx, cfg, cache, pending, started, astore, res, hnd>>

-----------------------------------------------------------------------------
Ops     == {"=", "!=", "<", "<=", ">", ">="}
\* steps that concern ONE collection of the database (SodMulti interleaves two collections on them) ...
CollNext ==
  \/ Load
  \/ \E u \in Slots, o \in Objects : Put(u, o)
  \/ \E b \in Batches : BatchFilter(b) /\ PutMany(b)
  \/ \E u \in Slots : Del(u) \/ Get(u)
  \/ DelAll
  \/ \E op \in Ops, p \in AVals : DelSearch("A", op, p) \/ Eval("A", op, p)
  \/ Collect
  \/ \E c \in BOOLEAN : FlushAll(c)
  \/ \E u \in Slots, c \in BOOLEAN : FlushOne(u, c)
  \/ \E c \in Cfgs : Switch(c)
  \/ RepairLive
  \/ FlusherPoll
\* ... and steps of the whole database: Close / abandon + new handle, Drop, the clock
Next ==
  \/ CollNext
  \/ \E c \in BOOLEAN : Reopen(c) \/ Abandon(c)
  \/ \E c \in Cfgs : DropCreate(c)
  \/ Tick

Spec     == Init /\ [][Next]_vars
FairSpec == Spec /\ WF_vars(FlusherPoll) /\ WF_vars(Tick)

-----------------------------------------------------------------------------
(* Design-level properties                                                  *)

EffIdx == IF loaded THEN midx ELSE didx

TypeOK == /\ DOMAIN files \subseteq Slots /\ DOMAIN midx \subseteq Slots /\ DOMAIN cache \subseteq Slots
          /\ DOMAIN pending \subseteq Slots /\ slept \in 0..Tmo /\ cfg \in [cache : BOOLEAN, async : BOOLEAN]

\* C01 / C12: every read path equals the abstract map, whatever the settings
RefOK == loaded => \A u \in Slots : ReadView(u) = IF u \in DOMAIN astore THEN astore[u] ELSE None
\* listing / counting / searching go through the index: same identifiers, same keys (C01, C02 premise)
IndexAgree == /\ DOMAIN EffIdx = DOMAIN astore
              /\ \A u \in DOMAIN astore : EffIdx[u] = Ix(astore[u])
\* Exist: file or pending write
ExistView(u) == u \in DOMAIN files \/ (u \in DOMAIN pending /\ "ExistStatsFile" \notin Dev)
ExistOK == loaded => \A u \in Slots : ExistView(u) <=> u \in DOMAIN astore
\* C03 / C15 at design level
UniqueOK == Abs!UniqueInv(astore)
ValidOK  == \A u \in DOMAIN astore : Valid(astore[u])
\* C04 (sync): every completed call leaves the directory equal to the abstract map
SyncDurable == (~cfg.async /\ ~dcfg.async /\ pending = Empty) => (files = astore /\ didx = EffIdx)
\* C10: no resurrection, nothing stale without a pending rewrite
FilesOK == /\ DOMAIN files \subseteq DOMAIN astore
           /\ \A u \in DOMAIN files : files[u] = astore[u] \/ u \in DOMAIN pending
\* pending writes are readable: an async object is in the cache
PendingOK == loaded => (DOMAIN pending \subseteq DOMAIN astore /\ \A u \in DOMAIN pending : pending[u] = astore[u])
\* C10: Close / FlushAllAndCommit leave everything on disk and committed
ClosedDurable == [][((\E c \in BOOLEAN : Reopen(c)) \/ FlushAll(TRUE)) => (files' = astore' /\ didx' = [u \in DOMAIN astore' |-> Ix(astore'[u])])]_vars
FlushedDurable == [][FlushAll(FALSE) => files' = astore']_vars
\* C07: the code's batch rule is within what the abstract statement allows
BatchRefines == \A b \in Batches : /\ CodeRejects(EffIdx, b) => ~Abs!MustAccept(astore, b)
                                   /\ ~CodeRejects(EffIdx, b) => ~Abs!MustReject(astore, b)
\* C06: a refused call changes nothing observable
RefusedNoop == [][(hist' # hist /\ hist'[Len(hist')].op \in {"put", "many"} /\ res' \in {"invalid", "unique"})
                     => (astore' = astore /\ files' = files /\ midx' = midx /\ pending' = pending /\ didx' = didx)]_vars
\* C11 premise: in sync mode Control has nothing to report
ControlOK == (loaded /\ pending = Empty) => DOMAIN midx = DOMAIN files
\* C10 liveness: pending writes reach the disk with no further call
Drains == (pending # Empty /\ started) ~> (pending = Empty)

-----------------------------------------------------------------------------
(* Test emission: one line per generated transition                         *)
=============================================================================
