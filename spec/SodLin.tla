------------------------------- MODULE SodLin -------------------------------
(***************************************************************************)
(* C08 (result part): linearizability of recorded concurrent histories.    *)
(*                                                                         *)
(* A history is the sequence of invocation and return events of the calls  *)
(* that several goroutines issued on ONE handle of the real package,       *)
(* totally ordered by a sequence number drawn by the driver immediately    *)
(* before each call and immediately after it (so the order respects real   *)
(* time).  The specification consumes the events in that order; between    *)
(* the invocation and the return of a call it may take the internal step   *)
(* Linearize, which applies the call to the abstract map (SodAbs           *)
(* semantics: unique keys, all-or-nothing batches) and fixes the result    *)
(* the call must return.  A return event can only be consumed if the call  *)
(* was linearized and the recorded result is the one fixed then.  The      *)
(* history is linearizable iff all its events can be consumed.             *)
(*                                                                         *)
(* Several histories are concatenated (reset events).  Accepted iff the    *)
(* end of the file is reachable: HWM records the furthest event reached,   *)
(* which identifies the first history without a linearization.             *)
(***************************************************************************)
EXTENDS Integers, Sequences, FiniteSets, TLC, Json, SodCore

CONSTANTS TraceFile, Dev

H == ndJsonDeserialize(TraceFile)

VARIABLES l,      \* next event
          store,  \* slot -> record
          pend    \* goroutine -> [call, lin, res]  (calls invoked, not yet returned)

vars == <<l, store, pend>>
Empty == [x \in {} |-> 0]

Init == l = 1 /\ store = Empty /\ pend = Empty /\ TLCSet(1, 1)

Upd(S, u, o) == [x \in DOMAIN S \cup {u} |-> IF x = u THEN o ELSE S[x]]
Rem(S, U)    == [x \in DOMAIN S \ U |-> S[x]]

UniqueF == {"K", "S"}
Conflict(S, u, o) == \E f \in UniqueF, w \in DOMAIN S : w # u /\ S[w][f] = o[f]

RECURSIVE ApplySeq(_, _, _)
ApplySeq(S, b, n) == IF n = 0 THEN S ELSE Upd(ApplySeq(S, b, n - 1), b[n].slot, b[n].o)
BatchConflict(S, b) ==
  \/ \E i \in 1..Len(b) : \E f \in UniqueF, w \in DOMAIN S : w \notin {b[j].slot : j \in 1..Len(b)} /\ S[w][f] = b[i].o[f]
  \/ \E i, j \in 1..Len(b) : \E f \in UniqueF : b[i].slot # b[j].slot /\ b[i].o[f] = b[j].o[f]
\* batches whose outcome the statement of C07 leaves open (a member takes a value another member releases) are not generated

Match(S, q) == {u \in DOMAIN S : Sat(S[u][q[1]], q[2], q[3])}

\* the abstract effect of a call and the result it then has to report
Effect(c, S) ==
  CASE c.op = "put"    -> IF Conflict(S, c.slot, c.o) THEN S ELSE Upd(S, c.slot, c.o)
    [] c.op = "many"   -> IF BatchConflict(S, c.batch) THEN S ELSE ApplySeq(S, c.batch, Len(c.batch))
    [] c.op = "del"    -> Rem(S, {c.slot})
    [] c.op = "delall" -> Empty
    [] c.op = "delq"   -> Rem(S, Match(S, c.q))
    [] OTHER           -> S
Result(c, S) ==
  CASE c.op = "put"    -> [c |-> IF Conflict(S, c.slot, c.o) THEN "unique" ELSE "ok"]
    [] c.op = "many"   -> IF BatchConflict(S, c.batch) THEN [c |-> "unique", n |-> 0] ELSE [c |-> "ok", n |-> Len(c.batch)]
    [] c.op = "del"    -> [c |-> "ok"]
    [] c.op = "delall" -> [c |-> "ok"]
    [] c.op = "delq"   -> [c |-> "ok"]
    [] c.op = "get"    -> IF c.slot \in DOMAIN S THEN [c |-> "ok", rec |-> S[c.slot]] ELSE [c |-> "notfound"]
    [] c.op = "exist"  -> [c |-> "ok", b |-> c.slot \in DOMAIN S]
    [] c.op = "count"  -> [c |-> "ok", n |-> Cardinality(DOMAIN S)]
    [] c.op = "all"    -> [c |-> "ok", set |-> {<<u, S[u]>> : u \in DOMAIN S}]
    [] c.op = "q"      -> [c |-> "ok", ids |-> Match(S, c.q)]
    [] OTHER           -> [c |-> "?"]

\* does the recorded return event r carry the result fixed at the linearization point?
Agrees(res, r, c) ==
  /\ r.c = res.c \/ (res.c = "notfound" /\ r.c # "ok")
  /\ (c.op = "many" /\ r.c = "ok") => r.n = res.n
  /\ (c.op = "many" /\ r.c # "ok") => r.n = 0
  /\ (c.op = "get" /\ r.c = "ok") => r.rec = res.rec
  /\ c.op = "exist" => r.b = res.b
  /\ c.op = "count" => r.n = res.n
  /\ c.op = "all" => ({<<r.items[i][1], r.items[i][2]>> : i \in 1..Len(r.items)} = res.set /\ Len(r.items) = Cardinality(res.set))
  /\ (c.op = "q" /\ r.c = "ok") => ({r.ids[i] : i \in 1..Len(r.ids)} = res.ids /\ Len(r.ids) = Cardinality(res.ids))

e == H[l]

Reset == /\ e.ev = "reset" /\ pend = Empty
         /\ l' = l + 1 /\ store' = Empty /\ UNCHANGED pend
\* sequential set-up of a history: applied directly
Setup == /\ e.ev = "setup"
         /\ l' = l + 1 /\ store' = Upd(store, e.slot, e.o) /\ UNCHANGED pend
\* Search(...).Collect() and Search(...).Delete() are TWO calls each: the evaluation fixes the
\* identifiers (C20: a snapshot), the second call reads / deletes those identifiers later
TwoStep(c) == c.op \in {"q", "delq"}
Invoke == /\ e.ev = "inv" /\ e.g \notin DOMAIN pend
          /\ pend' = [g \in DOMAIN pend \cup {e.g} |-> IF g = e.g THEN [call |-> e, lin |-> 0, res |-> [c |-> "?"], ids |-> {}] ELSE pend[g]]
          /\ l' = l + 1 /\ UNCHANGED store
Linearize(g) ==
  /\ g \in DOMAIN pend /\ pend[g].lin < 2 /\ UNCHANGED l
  /\ LET p == pend[g]  c == pend[g].call IN
     IF TwoStep(c) /\ p.lin = 0
     THEN /\ pend' = [pend EXCEPT ![g] = [call |-> c, lin |-> 1, res |-> p.res, ids |-> Match(store, c.q)]]
          /\ UNCHANGED store
     ELSE IF c.op = "q"
     THEN /\ pend' = [pend EXCEPT ![g] = [call |-> c, lin |-> 2, ids |-> p.ids,
                                           res |-> IF p.ids \subseteq DOMAIN store THEN [c |-> "ok", ids |-> p.ids] ELSE [c |-> "notfound"]]]
          /\ UNCHANGED store
     ELSE IF c.op = "delq"
     THEN /\ pend' = [pend EXCEPT ![g] = [call |-> c, lin |-> 2, ids |-> p.ids, res |-> [c |-> "ok"]]]
          /\ store' = Rem(store, p.ids)
     ELSE /\ store' = Effect(c, store)
          /\ pend' = [pend EXCEPT ![g] = [call |-> c, lin |-> 2, ids |-> {}, res |-> Result(c, store)]]
Return == /\ e.ev = "ret" /\ e.g \in DOMAIN pend /\ pend[e.g].lin = 2
          /\ Agrees(pend[e.g].res, e, pend[e.g].call)
          /\ pend' = [g \in DOMAIN pend \ {e.g} |-> pend[g]]
          /\ l' = l + 1 /\ UNCHANGED store
\* the sequential sweep after all goroutines have returned pins the final state
Final == /\ e.ev = "final" /\ pend = Empty
         /\ {<<e.items[i][1], e.items[i][2]>> : i \in 1..Len(e.items)} = {<<u, store[u]>> : u \in DOMAIN store}
         /\ l' = l + 1 /\ UNCHANGED <<store, pend>>
Skip == /\ e.ev \in {"end", "hdr", "note"} /\ l' = l + 1 /\ UNCHANGED <<store, pend>>

Next == \/ (l <= Len(H) /\ (Reset \/ Setup \/ Invoke \/ Return \/ Final \/ Skip))
        \/ \E g \in DOMAIN pend : Linearize(g)

Spec == Init /\ [][Next]_vars

\* high-water mark of consumed events (needs -workers 1)
Track == IF l > TLCGet(1) THEN TLCSet(1, l) ELSE TRUE
\* accepted iff the end of the file was reached: every history has a linearization
Accepted == PrintT(<<"HWM", TLCGet(1), Len(H)>>) /\ TLCGet(1) = Len(H) + 1
=============================================================================
