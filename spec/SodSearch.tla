----------------------------- MODULE SodSearch ------------------------------
(***************************************************************************)
(* C13 / C20 at design level: what a SEARCH VALUE is.  Evaluating a query  *)
(* yields a value that holds the matches in index order (non-increasing    *)
(* key) and two settings, Limit and Reverse, which the caller sets on the  *)
(* value and which stay in force.  Collect / Assign return the first       *)
(* min(limit, matches) of the chosen order, One / AssignOne the first      *)
(* element; And / Or build a NEW value (no settings of its own) and leave  *)
(* their receiver alone.  Collecting is an OBSERVATION: it changes nothing *)
(* of the value, so a value may be collected any number of times, before   *)
(* or after being refined.                                                 *)
(*                                                                         *)
(* Deviations (what the code did before its repairs, what seeded changes   *)
(* did):                                                                   *)
(*   SpentLimit     Collect counts the limit down in the value itself and  *)
(*                  One sets it to 1 for good (F31)                        *)
(*   InheritLimit   And / Or hand the receiver's limit to the new value    *)
(*                  (seed C13-e; with SpentLimit: the spent counter)       *)
(* With Dev = {} CollectIsObservation and CollectExact hold; each          *)
(* deviation breaks one of them (checked, so that the properties are not   *)
(* vacuous).  The same rule is what the trace specification demands of     *)
(* recorded collect events (CollectOK with the value's sticky settings).   *)
(***************************************************************************)
EXTENDS Integers, Sequences, FiniteSets, TLC

CONSTANTS Keys,      \* keys of the stored objects (a set of integers; object = its key, no ties needed here)
          Limits,    \* limits a caller may set
          MaxVals,   \* number of search values that may exist
          MaxSteps,
          Dev

NoLimit == 1000      \* "no limit" (the code: the largest unsigned integer)

VARIABLES vals,      \* sequence of search values: [m |-> sequence of keys in index order, lim, rev]
          asked,     \* ghost: what the CALLER last asked of each value: [lim, rev] (a new value: no limit, not reversed)
          last,      \* the last answer: [out |-> sequence returned, want |-> what the caller's settings denote]
          steps

vars == <<vals, asked, last, steps>>

\* the matches of "key >= p" in index order (non-increasing)
RECURSIVE Desc(_)
Desc(S) == IF S = {} THEN <<>> ELSE LET x == CHOOSE x \in S : \A y \in S : y <= x IN <<x>> \o Desc(S \ {x})
Rev(s) == [i \in 1..Len(s) |-> s[Len(s) + 1 - i]]
Take(s, n) == SubSeq(s, 1, IF n < Len(s) THEN n ELSE Len(s))
Ordered(v) == IF v.rev THEN Rev(v.m) ELSE v.m

Init == vals = <<>> /\ asked = <<>> /\ last = [out |-> <<>>, want |-> <<>>] /\ steps = 0

Room == steps < MaxSteps
Tick == steps' = steps + 1

Search(p) == /\ Room /\ Len(vals) < MaxVals /\ Tick
             /\ vals' = Append(vals, [m |-> Desc({k \in Keys : k >= p}), lim |-> NoLimit, rev |-> FALSE])
             /\ asked' = Append(asked, [lim |-> NoLimit, rev |-> FALSE])
             /\ UNCHANGED last

SetLimit(i, n) == /\ Room /\ Tick /\ vals' = [vals EXCEPT ![i].lim = n] /\ asked' = [asked EXCEPT ![i].lim = n] /\ UNCHANGED last
SetReverse(i)  == /\ Room /\ Tick /\ vals' = [vals EXCEPT ![i].rev = TRUE] /\ asked' = [asked EXCEPT ![i].rev = TRUE] /\ UNCHANGED last

\* And: the matches of the receiver that also satisfy "key <= p"; a new value without settings
Refine(i, p) == /\ Room /\ Len(vals) < MaxVals /\ Tick
                /\ LET keep == {k \in {vals[i].m[j] : j \in 1..Len(vals[i].m)} : k <= p}
                   IN vals' = Append(vals, [m |-> Desc(keep),
                                            lim |-> IF "InheritLimit" \in Dev THEN vals[i].lim ELSE NoLimit,
                                            rev |-> FALSE])
                /\ asked' = Append(asked, [lim |-> NoLimit, rev |-> FALSE])
                /\ UNCHANGED last

Collect(i) == /\ Room /\ Tick
              /\ LET out == Take(Ordered(vals[i]), vals[i].lim) IN
                 /\ last' = [out |-> out, want |-> Take(Ordered([m |-> vals[i].m, rev |-> asked[i].rev]), asked[i].lim)]
                 /\ vals' = IF "SpentLimit" \in Dev THEN [vals EXCEPT ![i].lim = @ - Len(out)] ELSE vals
              /\ UNCHANGED asked

One(i) == /\ Room /\ Tick /\ Len(vals[i].m) > 0
          /\ last' = [out |-> Take(Ordered(vals[i]), 1), want |-> Take(Ordered([m |-> vals[i].m, rev |-> asked[i].rev]), 1)]
          /\ vals' = IF "SpentLimit" \in Dev THEN [vals EXCEPT ![i].lim = 0] ELSE vals
          /\ UNCHANGED asked

Next == \/ \E p \in Keys : Search(p)
        \/ \E i \in 1..Len(vals) : \/ \E n \in Limits : SetLimit(i, n)
                                   \/ SetReverse(i)
                                   \/ \E p \in Keys : Refine(i, p)
                                   \/ Collect(i)
                                   \/ One(i)
Spec == Init /\ [][Next]_vars

-----------------------------------------------------------------------------
\* collecting is an observation: no search value changes
CollectIsObservation == [][(\E i \in 1..Len(vals) : Collect(i) \/ One(i)) => vals' = vals]_vars

\* a refinement is a new value without settings of its own, and leaves its receiver alone
RefineIsNew == [][\A i \in 1..Len(vals), p \in Keys : Refine(i, p) =>
                     /\ SubSeq(vals', 1, Len(vals)) = vals
                     /\ vals'[Len(vals')].lim = NoLimit /\ ~vals'[Len(vals')].rev]_vars

\* what Collect / One returned is exactly the first min(n, matches) of the chosen order, n and the order being what the
\* CALLER last asked of that value (ghost variable asked)
CollectExact == last.out = last.want
TypeOK == \A i \in 1..Len(vals) : vals[i].lim >= 0
=============================================================================
