------------------------------- MODULE SodCore -------------------------------
(***************************************************************************)
(* Definitions shared by every sod specification module: the value         *)
(* abstraction (integer codes) and the meaning of the comparison           *)
(* operators.                                                              *)
(***************************************************************************)
EXTENDS Integers, Sequences

CaseMul == 8

\* canonical spelling of a case-constrained code: variant 0 of its class
CanonCode(c) == (c \div CaseMul) * CaseMul

\* v: stored code; p: probe code (already canonicalised), or, for the regex
\* operator, the sequence of codes the pattern matches over the universe
Sat(v, op, p) ==
  CASE op = "="  -> v = p
    [] op = "!=" -> v # p
    [] op = "<"  -> v < p
    [] op = "<=" -> v <= p
    [] op = ">"  -> v > p
    [] op = ">=" -> v >= p
    [] op = "~=" -> \E i \in 1..Len(p) : p[i] = v
    [] OTHER     -> FALSE
=============================================================================
