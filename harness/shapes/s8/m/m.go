// Package m (shape s8) declares the collection type m.T in one of the shapes used by the C17 checks.
// Generated from the table in shapes/gen (kept in the repository of the framework, not of sod).
package m

import "github.com/0xrawsec/sod"

type T struct {
	sod.Item
	K int64  `sod:"unique"`
	A int    `sod:"index"`
	N string `sod:"index,lower"`
	V int
}

// Proto returns an empty object of this shape.
func Proto() sod.Object { return &T{} }

// New returns an object of this shape.
func New(k int64, a int, n string) sod.Object {
	t := &T{}
	t.K = k
	t.A = a
	t.N = n
	t.V = a + 1
	return t
}

// Key projects an object of this shape.
func Key(o sod.Object) int64 { return o.(*T).K }
