package main

// Value universes.  The specification works on integer *codes*; this file owns
// the mapping between codes and typed Go values.  The order of a universe is
// Go's own typed order (checked at start-up), independent of any sod code.
//
// Plain fields:  code = rank in the universe (0-based).
// Case fields (sod:"upper"/"lower"):  code = class*8 + variant, variant 0 being
// the canonical spelling; class order is the order of the canonical strings.
// The canonical spelling is *defined* by strings.ToUpper / strings.ToLower of
// the variant, which is the definition of the constraint.

import (
	"fmt"
	"math"
	"sort"
	"strings"
	"time"
)

const CaseMul = 8

var (
	uniK = []int64{math.MinInt64, -(1 << 53) - 1, -(1 << 53), -2, -1, 0, 1, 2, 3, 4, 5, 6, 7, 8, 9, 10, 11, 12, 13, 14, 15, 16, 17, 18, 19, 20, 1<<53 - 1, 1 << 53, 1<<53 + 1, 1<<53 + 2, math.MaxInt64 - 1, math.MaxInt64}
	uniA = []int{math.MinInt64, -7, -1, 0, 1, 2, 3, 4, 5, 6, 7, 100, 1<<53 + 1, math.MaxInt64}
	uniU = []uint64{0, 1, 2, 3, 4, 5, 6, 7, 1 << 53, 1<<53 + 1, math.MaxUint64 - 1, math.MaxUint64}
	uniF = []float64{-math.MaxFloat64, -1.5, -math.SmallestNonzeroFloat64, 0, math.SmallestNonzeroFloat64, 0.1, 0.5, 1, 1.5, 2, 2.5, 3, 1e300, math.MaxFloat64}
	uniE = []int32{math.MinInt32, -1, 0, 1, 2, 3, 4, math.MaxInt32}
	uniX = []int{-2, -1, 0, 1, 2, 3, 4}
	uniV = []int{-1, 0, 1, 2, 3, 4, 5, 6}
	uniO = []int{0, 1, 2, 3, 4}
	uniY = []float32{-1.5, 0, 0.1, 0.25, 0.3, 0.5, 0.7, 1, 1.3, 3e38}
	uniT []time.Time
	// (one value holds a backslash followed by a letter that JSON knows as an escape: written raw it would read back as a tab)
	uniZ = []string{"", "A", "B", "a", "a\\tb", "aa", "ab", "b", "z", "é", "ÿ"}

	// case fields: raw spellings; classes are derived below
	rawLower = []string{"", "a", "A", "ab", "AB", "Ab", "aB", "b", "B", "c", "C", "d", "D", "e", "f", "g", "h", "i", "I", "j", "k", "K", "K", "l", "m", "n", "o", "p", "q", "Q", "r", "R", "s", "S", "ſ", "straße", "STRAßE", "Straße", "t", "u", "v", "w", "x", "X", "y", "z", "é", "É", "ǆ", "ǅ", "Ǆ", "σ", "Σ", "ς"}
	rawUpper = []string{"", "A", "a", "AB", "ab", "Ab", "aB", "B", "b", "C", "c", "D", "d", "E", "F", "G", "H", "I", "i", "ı", "J", "K", "k", "K", "L", "M", "N", "O", "P", "Q", "R", "S", "s", "ſ", "T", "U", "V", "W", "X", "Y", "Z", "É", "é", "Ǆ", "ǅ", "ǆ", "Σ", "σ", "ς", "ß"}

	caseLower *caseUni // fields S, W
	caseUpper *caseUni // fields N, PY
)

type caseUni struct {
	canon    []string       // class -> canonical spelling, sorted
	variants [][]string     // class -> spellings, [0] canonical
	code     map[string]int // spelling -> code
	fn       func(string) string
}

func newCaseUni(raw []string, fn func(string) string) *caseUni {
	u := &caseUni{code: map[string]int{}, fn: fn}
	cs := map[string]bool{}
	for _, r := range raw {
		c := fn(r)
		if fn(c) != c {
			panic("case transform not idempotent on " + r)
		}
		cs[c] = true
	}
	for c := range cs {
		u.canon = append(u.canon, c)
	}
	sort.Strings(u.canon)
	u.variants = make([][]string, len(u.canon))
	for i, c := range u.canon {
		u.variants[i] = []string{c}
		u.code[c] = i * CaseMul
	}
	for _, r := range raw {
		if _, ok := u.code[r]; ok {
			continue
		}
		c := fn(r)
		cl := sort.SearchStrings(u.canon, c)
		if len(u.variants[cl]) >= CaseMul {
			panic("too many variants for " + c)
		}
		u.code[r] = cl*CaseMul + len(u.variants[cl])
		u.variants[cl] = append(u.variants[cl], r)
	}
	return u
}

func (u *caseUni) value(code int) string {
	cl, v := code/CaseMul, code%CaseMul
	if cl < 0 || cl >= len(u.variants) || v >= len(u.variants[cl]) {
		panic(fmt.Sprintf("bad case code %d", code))
	}
	return u.variants[cl][v]
}

func (u *caseUni) encode(s string) int {
	if c, ok := u.code[s]; ok {
		return c
	}
	return -1
}

func (u *caseUni) valid(code int) bool {
	cl, v := code/CaseMul, code%CaseMul
	return code >= 0 && cl < len(u.variants) && v < len(u.variants[cl])
}

func init() {
	base := time.Date(2000, 1, 1, 0, 0, 0, 0, time.UTC)
	uniT = []time.Time{
		time.Date(1700, 1, 1, 0, 0, 0, 0, time.UTC),
		time.Date(1969, 12, 31, 23, 59, 59, 999999999, time.UTC),
		time.Unix(0, 0).UTC(),
		base, base.Add(1), base.Add(2), base.Add(3), base.Add(time.Microsecond), base.Add(time.Second),
		time.Date(2024, 2, 29, 12, 0, 0, 123456789, time.UTC),
		time.Date(2024, 2, 29, 12, 0, 0, 123456790, time.UTC),
		time.Date(2261, 12, 31, 0, 0, 0, 0, time.UTC),
	}
	caseLower = newCaseUni(rawLower, strings.ToLower)
	caseUpper = newCaseUni(rawUpper, strings.ToUpper)
	// sanity: universes strictly increasing under Go's typed order
	for i := 1; i < len(uniK); i++ {
		if !(uniK[i-1] < uniK[i]) {
			panic("uniK")
		}
	}
	for i := 1; i < len(uniA); i++ {
		if !(uniA[i-1] < uniA[i]) {
			panic("uniA")
		}
	}
	for i := 1; i < len(uniU); i++ {
		if !(uniU[i-1] < uniU[i]) {
			panic("uniU")
		}
	}
	for i := 1; i < len(uniF); i++ {
		if !(uniF[i-1] < uniF[i]) {
			panic("uniF")
		}
	}
	for i := 1; i < len(uniE); i++ {
		if !(uniE[i-1] < uniE[i]) {
			panic("uniE")
		}
	}
	for i := 1; i < len(uniX); i++ {
		if !(uniX[i-1] < uniX[i]) {
			panic("uniX")
		}
	}
	for i := 1; i < len(uniV); i++ {
		if !(uniV[i-1] < uniV[i]) {
			panic("uniV")
		}
	}
	for i := 1; i < len(uniY); i++ {
		if !(uniY[i-1] < uniY[i]) {
			panic("uniY")
		}
	}
	for i := 1; i < len(uniT); i++ {
		if !uniT[i-1].Before(uniT[i]) {
			panic("uniT")
		}
	}
	for i := 1; i < len(uniZ); i++ {
		if !(uniZ[i-1] < uniZ[i]) {
			panic("uniZ")
		}
	}
}

// FieldNames lists the spec-level field names, in a fixed order.
// PX/PY are the nested paths P.X / P.Y, E is Emb.E; Pn is 1 when P is nil.
var FieldNames = []string{"K", "S", "A", "U", "F", "N", "T", "E", "PX", "PY", "Z", "V", "W", "O", "R", "Y", "Pn"}

// Path gives the sod field path of a spec-level field name.
var Path = map[string]string{"K": "K", "S": "S", "A": "A", "U": "U", "F": "F", "N": "N", "T": "T", "E": "Emb.E", "PX": "P.X", "PY": "P.Y", "Z": "Z", "V": "V", "W": "W", "O": "O", "R": "R", "Y": "Y"}

// CaseKind: "" | "lower" | "upper"
// (R only carries its constraint under custom schema 7; it is nil, i.e. canonical, everywhere else)
var CaseKind = map[string]string{"S": "lower", "W": "lower", "N": "upper", "PY": "upper", "R": "upper"}

// UniSize returns the number of ranks (plain) or classes (case fields).
func UniSize(f string) int {
	switch f {
	case "K":
		return len(uniK)
	case "A":
		return len(uniA)
	case "U":
		return len(uniU)
	case "F":
		return len(uniF)
	case "E":
		return len(uniE)
	case "PX":
		return len(uniX)
	case "V":
		return len(uniV)
	case "O":
		return len(uniO)
	case "Y":
		return len(uniY)
	case "T":
		return len(uniT)
	case "Z":
		return len(uniZ)
	case "S", "W":
		return len(caseLower.canon)
	case "N", "PY", "R":
		return len(caseUpper.canon)
	case "Pn":
		return 2
	}
	panic("UniSize " + f)
}

// Vals is the spec-level view of one object: field name -> code.
type Vals map[string]int

// zero codes (the value a field reads as when nothing was set / P is nil)
func zeroCode(f string) int {
	switch f {
	case "K":
		return idxI64(uniK, 0)
	case "A":
		return idxInt(uniA, 0)
	case "U":
		return 0
	case "F":
		return 3
	case "E":
		return 2
	case "PX":
		return idxInt(uniX, 0)
	case "V":
		return idxInt(uniV, 0)
	case "S", "W":
		return caseLower.encode("")
	case "N", "PY", "R":
		return caseUpper.encode("")
	case "Z", "O":
		return 0
	case "Y":
		return 1
	}
	return 0
}

func idxI64(u []int64, v int64) int {
	for i, x := range u {
		if x == v {
			return i
		}
	}
	return -1
}
func idxInt(u []int, v int) int {
	for i, x := range u {
		if x == v {
			return i
		}
	}
	return -1
}
func idxU64(u []uint64, v uint64) int {
	for i, x := range u {
		if x == v {
			return i
		}
	}
	return -1
}
func idxF64(u []float64, v float64) int {
	for i, x := range u {
		if x == v {
			return i
		}
	}
	return -1
}
func idxF32(u []float32, v float32) int {
	for i, x := range u {
		if x == v {
			return i
		}
	}
	return -1
}
func idxI32(u []int32, v int32) int {
	for i, x := range u {
		if x == v {
			return i
		}
	}
	return -1
}
func idxT(u []time.Time, v time.Time) int {
	for i, x := range u {
		if x.Equal(v) {
			return i
		}
	}
	return -1
}
func idxS(u []string, v string) int {
	for i, x := range u {
		if x == v {
			return i
		}
	}
	return -1
}

func idxStr(u []string, v string) int {
	for i, x := range u {
		if x == v {
			return i
		}
	}
	panic("idxStr: value not in universe: " + v)
}
