package main

// A SECOND collection living in the same database as the collection under test ("Close, for every
// collection"; collections do not disturb each other).  It is deliberately small: a unique key and an
// indexed value, identified by slots of its own.  Tests opt in with "aux": true; its operations are
// xput / xdel / xflush, every sweep then also lists it (through the API and on disk).

import (
	"os"
	"path/filepath"
	"sort"
	"strings"

	"github.com/0xrawsec/sod"
)

type Aux struct {
	sod.Item
	K int `sod:"unique"`
	A int `sod:"index"`
}

func auxDir(lc bool) string {
	if lc {
		return "main._aux"
	}
	return "main.Aux"
}

func (r *Runner) auxCreate() string {
	c := r.cfg
	c.Cust = 0 // (a custom schema describes the fields of the first collection's type)
	return classify(r.db.Create(&Aux{}, schemaFor(c)))
}

func (r *Runner) xobj(slot int) *Aux {
	o := &Aux{}
	if u, ok := r.xslots[slot]; ok {
		o.Initialize(u)
	}
	return o
}

func (r *Runner) xput(op *Op) {
	o := r.xobj(op.Slot)
	o.K, o.A = op.K, op.A
	err := r.db.InsertOrUpdate(o)
	c := classify(err)
	if c == "ok" {
		r.xslots[op.Slot] = o.UUID()
		r.xrev[o.UUID()] = op.Slot
	}
	r.emit(ev{"ev": "xput", "slot": op.Slot, "k": op.K, "a": op.A, "c": c})
}

func (r *Runner) xdel(op *Op) {
	if _, ok := r.xslots[op.Slot]; !ok {
		r.emit(ev{"ev": "xdel", "slot": op.Slot, "c": "unbound"})
		return
	}
	err := r.db.Delete(r.xobj(op.Slot))
	r.emit(ev{"ev": "xdel", "slot": op.Slot, "c": classify(err)})
}

func (r *Runner) xflush(op *Op) {
	var err error
	if op.What == "all" {
		err = r.db.FlushAll(&Aux{})
	} else {
		err = r.db.FlushAllAndCommit(&Aux{})
	}
	r.emit(ev{"ev": "xflush", "what": op.What, "c": classify(err), "xdir": r.xwalk()})
}

// xlist: what the API reports about the second collection
func (r *Runner) xlist() ev {
	e := ev{}
	objs, err := r.db.All(&Aux{})
	e["all_c"] = classify(err)
	all := [][]int{}
	for _, o := range objs {
		a := o.(*Aux)
		all = append(all, []int{r.xrev[a.UUID()], a.K, a.A})
	}
	sort.Slice(all, func(i, j int) bool { return all[i][0] < all[j][0] })
	e["all"] = all
	n, err := r.db.Count(&Aux{})
	e["count"], e["count_c"] = n, classify(err)
	// the unique key through its index, and one lookup per slot
	var ks []int
	err = r.db.AssignIndex(&Aux{}, "K", &ks)
	sort.Ints(ks)
	if ks == nil {
		ks = []int{}
	}
	e["keys"], e["keys_c"] = ks, classify(err)
	gets := [][]interface{}{}
	slots := []int{}
	for s := range r.xslots {
		slots = append(slots, s)
	}
	sort.Ints(slots)
	for _, s := range slots {
		o, err := r.db.Get(r.xobj(s))
		if err == nil {
			a := o.(*Aux)
			gets = append(gets, []interface{}{s, "ok", a.K, a.A})
		} else {
			gets = append(gets, []interface{}{s, classify(err), 0, 0})
		}
	}
	e["get"] = gets
	e["dir"] = r.xwalk()
	return e
}

// xwalk: what the directory of the second collection holds, decoded independently of sod
func (r *Runner) xwalk() ev {
	d := ev{"want": auxDir(r.cfg.Lc)}
	dir := filepath.Join(r.root, auxDir(r.cfg.Lc))
	ents, err := os.ReadDir(dir)
	d["exists"] = err == nil
	suffix := extOf(r.cfg)
	if r.cfg.Gz {
		suffix += ".gz"
	}
	files := [][]interface{}{}
	extra := []string{}
	sidx := []int{}
	hasSchema := false
	for _, e := range ents {
		name := e.Name()
		if name == "schema.json" && e.Type().IsRegular() {
			hasSchema = true
			var any map[string]interface{}
			if err := decodeFile(filepath.Join(dir, name), false, &any); err != nil {
				d["schema_err"] = err.Error()
			}
			if idx, ok := any["index"].(map[string]interface{}); ok {
				if ids, ok := idx["object-ids"].(map[string]interface{}); ok {
					for _, u := range ids {
						if us, ok := u.(string); ok {
							sidx = append(sidx, r.xrev[us])
						}
					}
				}
			}
			continue
		}
		// (a name starting with a dot is never an object file: the library's temporary files are named that way)
		if !strings.HasSuffix(name, suffix) || !e.Type().IsRegular() || strings.HasPrefix(name, ".") {
			extra = append(extra, name)
			continue
		}
		u := strings.TrimSuffix(name, suffix)
		a := &Aux{}
		if err := decodeFile(filepath.Join(dir, name), r.cfg.Gz, a); err != nil {
			files = append(files, []interface{}{r.xrev[u], "undecodable", 0, 0})
			continue
		}
		files = append(files, []interface{}{r.xrev[u], "ok", a.K, a.A})
	}
	sort.Slice(files, func(i, j int) bool { return files[i][0].(int) < files[j][0].(int) })
	sort.Ints(sidx)
	d["files"], d["extra"], d["sidx"], d["schema"] = files, extra, sidx, hasSchema
	return d
}
