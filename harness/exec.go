package main

import (
	"encoding/json"
	"errors"
	"fmt"
	"hash/fnv"
	"io/fs"
	"math"
	"os"
	"path/filepath"
	"regexp/syntax"
	"runtime/debug"
	"sort"
	"strings"
	"syscall"
	"time"

	"github.com/0xrawsec/sod"
	"github.com/0xrawsec/sod/verifshim/vfs"
	"github.com/0xrawsec/sod/verifshim/vtime"
	"github.com/google/uuid"
)

// ---------------------------------------------------------------- test format

type Cfg struct {
	Cache bool   `json:"cache"`
	Async bool   `json:"async"`
	Thr   int    `json:"thr"`
	TmoMs int    `json:"tmo_ms"`
	Gz    bool   `json:"gz"`
	Lc    bool   `json:"lc"`
	Ext   string `json:"ext"`
	Plain bool   `json:"plain"`
	Swy   bool   `json:"switchy,omitempty"`  // (C12) settings switches marked variant_only are executed under this configuration only
	AOff  bool   `json:"asyncoff,omitempty"` // synchronous, but the schema carries asynchronous-write settings that are switched off (Enable false)
	Cust  int    `json:"cust,omitempty"`     // > 0: a custom schema (NewCustomSchema) whose field constraints differ from the struct tags, see custom()
}

// custom: the constraints a custom schema puts on top of the struct tags ("any subset of fields indexed / unique").
//
//	1: A unique (Unique alone, Index not set)   2: U not indexed   3: V indexed   4: F unique, E not indexed   5: V unique, Z not indexed
//	7: R (an optional string, *string) UPPER: the only way to put a case constraint on a pointer field
//	6: Z unique and LOWER (a normalisation the struct tag does not have: the trace header then carries the
//	   canonicalisation table of Z, see header())
func custom(k int) map[string]sod.Constraints {
	switch k {
	case 1:
		return map[string]sod.Constraints{"A": {Unique: true}} // (unique WITHOUT index: Constraint replaces the constraints wholesale)
	case 2:
		return map[string]sod.Constraints{"U": {}}
	case 3:
		return map[string]sod.Constraints{"V": {Index: true}}
	case 4:
		return map[string]sod.Constraints{"F": {Index: true, Unique: true}, "E": {}}
	case 5:
		return map[string]sod.Constraints{"V": {Index: true, Unique: true}, "Z": {}}
	case 6:
		return map[string]sod.Constraints{"Z": {Index: true, Unique: true, Lower: true}}
	case 7:
		return map[string]sod.Constraints{"R": {Upper: true}}
	case 9:
		// a UNIQUE time field; odd slots write their instants in another time zone (see object())
		return map[string]sod.Constraints{"T": {Index: true, Unique: true}}
	case 8:
		// BOTH case constraints on one field (only a custom schema or the tag "upper,lower" can say that): they are applied
		// one after the other, upper then lower, wherever a value is canonicalised - stored values and probes alike
		return map[string]sod.Constraints{"Z": {Index: true, Upper: true, Lower: true}}
	}
	return nil
}

type BatchEnt struct {
	Slot   int  `json:"slot"`
	O      Vals `json:"o,omitempty"`
	SameAs int  `json:"same_as,omitempty"` // 1-based index of an earlier entry whose very object is passed again
	Other  bool `json:"other,omitempty"`   // an object of another collection type
}

type Cmp struct {
	Conn  string `json:"conn,omitempty"` // "" for the first, "and" / "or"
	F     string `json:"f"`
	Op    string `json:"op"`
	P     int    `json:"p"`               // probe code
	Pat   string `json:"pat,omitempty"`   // regex pattern for ~= / ~!
	Ptype string `json:"ptype,omitempty"` // override the Go type of the probe (mistyped probes)
}

type Op struct {
	Op     string     `json:"op"`
	Slot   int        `json:"slot,omitempty"`
	O      Vals       `json:"o,omitempty"`
	Batch  []BatchEnt `json:"batch,omitempty"`
	Csize  int        `json:"csize,omitempty"`
	Q      []Cmp      `json:"q,omitempty"`
	Qs     [][]Cmp    `json:"qs,omitempty"` // extra query chains evaluated by an obs
	Close  bool       `json:"close,omitempty"`
	Create bool       `json:"create,omitempty"`
	Commit bool       `json:"commit,omitempty"`
	VOnly  bool       `json:"variant_only,omitempty"` // switch: only executed when the test's configuration is "switchy" (the twin run skips it)
	H      int        `json:"h,omitempty"`
	From   int        `json:"from,omitempty"` // derive: the kept search value that is refined (And / Or / Operation) into handle H
	Rev    bool       `json:"rev,omitempty"`
	Lim    int        `json:"lim,omitempty"` // -1 = no Limit call
	Light  bool       `json:"light,omitempty"`
	Cfg    *Cfg       `json:"cfg,omitempty"`
	What   string     `json:"what,omitempty"`
	N      int        `json:"n,omitempty"`
	K      int        `json:"k,omitempty"` // second collection (aux.go): key and value of an xput
	A      int        `json:"a,omitempty"`
	// fault engines
	Via     string   `json:"via,omitempty"`   // bulk deletes: "iter" = Iterator + DeleteObjects, "call" = DeleteAll / Search.Delete, "" = chosen by position
	Bad     string   `json:"bad,omitempty"`   // make the object unserialisable: "nan" | "inf" | "chan"
	Crash   bool     `json:"crash,omitempty"` // enumerate the crash points of this call
	Fault   int      `json:"fault,omitempty"` // fail the Fault-th file-system call of this call
	Fsub    string   `json:"fsub,omitempty"`  // "" | "write" | "after"
	Damage  *Damage  `json:"damage,omitempty"`
	Corrupt *Corrupt `json:"corrupt,omitempty"`
}

type Test struct {
	ID         string   `json:"id"`
	Cfg        Cfg      `json:"cfg"`
	Ops        []Op     `json:"ops"`
	Fields     []string `json:"fields,omitempty"`     // fields the sweep queries (default: those set in ops)
	NoObs      bool     `json:"noobs,omitempty"`      // no automatic final sweep
	VClock     bool     `json:"vclock,omitempty"`     // drive the background flusher with the virtual clock
	Threads    [][]Op   `json:"threads,omitempty"`    // concurrent part: one list of calls per goroutine
	Reopen     bool     `json:"reopen,omitempty"`     // close and reopen before the concurrent part (race on the first access)
	Perturb    bool     `json:"perturb,omitempty"`    // schedule perturbation at file-system call sites
	Yield      bool     `json:"yield,omitempty"`      // yield between the calls of a goroutine
	NoRecord   bool     `json:"norecord,omitempty"`   // race-detector runs: no recording, no synchronisation of the driver's own
	Adopt      string   `json:"adopt,omitempty"`      // continue on a copy of a golden directory (written by the pinned release)
	CrashAll   bool     `json:"crash_all,omitempty"`  // enumerate the crash points of every mutating call
	Aux        bool     `json:"aux,omitempty"`        // a second collection lives in the same database (aux.go)
	FinalCheck bool     `json:"finalcheck,omitempty"` // concurrent histories judged by their final state (Drop + Create among the calls)
	OwnIDs     bool     `json:"ownids,omitempty"`     // new objects of even slots get an identifier chosen by the caller (upper-case hex) before they are stored
}

// ---------------------------------------------------------------- error classes

func classify(err error) string {
	switch {
	case err == nil:
		return "ok"
	case sod.IsUnique(err):
		return "unique"
	case errors.Is(err, sod.ErrInvalidObject):
		return "invalid"
	case errors.Is(err, sod.ErrWrongObjectType):
		return "wrongtype"
	case errors.Is(err, syscall.EIO):
		return "storage"
	case errors.Is(err, fs.ErrNotExist):
		return "notfound"
	case sod.IsNoObjectFound(err):
		return "noobject"
	case sod.IsIndexCorrupted(err):
		return "corrupted"
	case errors.Is(err, sod.ErrStructureChanged):
		return "structchanged"
	case errors.Is(err, sod.ErrFieldDescModif):
		return "fielddesc"
	case errors.Is(err, sod.ErrExtensionMismatch):
		return "extmismatch"
	case errors.Is(err, sod.ErrCasting):
		return "casting"
	case errors.Is(err, sod.ErrUnkownField):
		return "unknownfield"
	case errors.Is(err, sod.ErrUnkownSearchOperator):
		return "unknownop"
	case errors.Is(err, sod.ErrUnknownKeyType):
		return "unknownkey"
	case errors.Is(err, sod.ErrUnexpectedNumberOfResults):
		return "unexpectedn"
	case errors.Is(err, sod.ErrUnknownOperator):
		return "unknownconn"
	case errors.Is(err, sod.ErrBadSchema):
		return "badschema"
	case errors.Is(err, sod.ErrMissingObjIndex):
		return "missingindex"
	case errors.Is(err, sod.ErrUnindexedField):
		return "unindexed"
	}
	var se *syntax.Error
	if errors.As(err, &se) {
		return "badregex"
	}
	var je *json.SyntaxError
	var jt *json.UnmarshalTypeError
	var jm *json.UnsupportedValueError
	var jn *json.MarshalerError
	var ju *json.UnsupportedTypeError
	if errors.As(err, &ju) {
		return "unserialisable"
	}
	if errors.As(err, &je) || errors.As(err, &jt) {
		return "json"
	}
	if errors.As(err, &jm) || errors.As(err, &jn) {
		return "unserialisable"
	}
	if err.Error() == "unexpected end of JSON input" || err.Error() == "unexpected EOF" || err.Error() == "EOF" {
		return "json"
	}
	return "other"
}

// ---------------------------------------------------------------- runner

type Runner struct {
	t       *Test
	cfg     Cfg
	root    string
	db      *sod.DB
	out     *json.Encoder
	slots   map[int]string // slot -> uuid (bound: stored now or earlier)
	rev     map[string]int // uuid -> slot
	ghost   []string       // uuids handed out by failed inserts of new objects + random ones
	seen    map[string]bool
	used    map[string]map[int]bool // field -> codes used in the test (for probe choice)
	qf      []string
	hands   map[int]*sod.Search
	handQ   map[int][]Cmp // the whole chain each kept search value stands for
	asyncOf map[string]*sod.Async // the caller's asynchronous settings, one value per (test, threshold, timeout)
	handLim map[int]int   // Limit is a setting OF a search value: the last one asked for stays in force (absent: none)
	handRev map[int]bool  // ... and so does Reverse
	nev     int
	lastMsg string
	xqs     [][]Cmp
	lastArg map[int]sod.Object
	kept    []json.RawMessage
	// fault engines
	pre    *dirSnap
	fsops  []*vfs.Op
	fired  bool
	obsN   int // number of sweeps so far (odd ones use pre-filled Assign targets)
	faultAt ev // where the injected fault of the current call fell (nil: no fault fired)
	stop   bool
	opi    int
	recs   []Vals
	recIdx map[string]int
	own    map[int]string // identifiers chosen by the caller (OwnIDs)
	// second collection
	xslots map[int]string
	xrev   map[string]int
}

type ev map[string]interface{}

func (r *Runner) emit(e ev) {
	r.nev++
	if KeepDir != "" {
		if b, err := json.Marshal(e); err == nil {
			r.kept = append(r.kept, b)
		}
	}
	if err := r.out.Encode(e); err != nil {
		panic(err)
	}
}

// extOf: the extension of object files: the configured one, ".json" when the test says nothing, none at all for "-"
// (an empty extension is a legal setting: files are then named <uuid>)
func extOf(c Cfg) string {
	switch c.Ext {
	case "":
		return ".json"
	case "-":
		return ""
	}
	return c.Ext
}

// schema builds the Schema value handed to Create.  Within one test the SAME *Async value is handed over whenever the same
// asynchronous settings are asked for again (a caller that keeps one Schema value per mode and switches back and forth):
// what the library does with its own copy must not depend on the caller's value being fresh.
func (r *Runner) schema() sod.Schema {
	s := schemaFor(r.cfg)
	if s.AsyncWrites != nil && s.AsyncWrites.Enable {
		key := fmt.Sprintf("%s|%d|%d", r.t.ID, s.AsyncWrites.Threshold, s.AsyncWrites.Timeout)
		if r.asyncOf == nil {
			r.asyncOf = map[string]*sod.Async{}
		}
		if a, ok := r.asyncOf[key]; ok {
			s.AsyncWrites = a
		} else {
			r.asyncOf[key] = s.AsyncWrites
		}
	}
	return s
}

func schemaFor(cfg Cfg) sod.Schema {
	r := struct{ cfg Cfg }{cfg}
	s := sod.DefaultSchema
	if cc := custom(cfg.Cust); cc != nil {
		fds := sod.FieldDescriptors(newObj(cfg.Plain))
		for f, c := range cc {
			if err := fds.Constraint(Path[f], c); err != nil {
				panic(err)
			}
		}
		s = sod.NewCustomSchema(fds, "")
	}
	s.Extension = extOf(cfg)
	s.Compress = r.cfg.Gz
	s.Cache = r.cfg.Cache
	if r.cfg.Async {
		tmo := r.cfg.TmoMs
		if clampTimeout && tmo > 1000 {
			tmo = 300
		}
		s.Asynchrone(r.cfg.Thr, time.Duration(tmo)*time.Millisecond)
	} else if r.cfg.AOff {
		// settings present but disabled: exactly the same collection as without settings
		s.AsyncWrites = &sod.Async{Enable: false, Threshold: 2, Timeout: 200 * time.Millisecond}
	}
	return s
}

// clampTimeout: sequential tests whose collection is (or may become) asynchronous and that do not drive the clock
// themselves run under the virtual clock too, with time standing still: the flusher never fires, whatever its
// timeout.  The timeout handed to the library is then three poll periods instead of the test's "never" (an hour),
// because the flusher goroutine of a CLOSED handle keeps polling until its own timeout has elapsed: with an hour it
// would outlive the test, poll in real time next to the following tests of the process and, worse, walk into THEIR
// virtual clock.  With three periods the drain at the end of the test retires it.
var clampTimeout bool

func (r *Runner) proto() sod.Object { return newObj(r.cfg.Plain) }

func (r *Runner) noteUsed(v Vals) {
	for f, c := range v {
		if r.used[f] == nil {
			r.used[f] = map[int]bool{}
		}
		r.used[f][c] = true
	}
}

// complete fills the fields an op left out with per-slot defaults.
func (r *Runner) complete(slot int, in Vals) Vals {
	v := Vals{}
	d := slot
	if d < 0 {
		d = 0
	}
	v["K"] = 5 + d%20 // values 0..19
	v["S"] = (1 + d%30) * CaseMul
	v["A"] = zeroCode("A")
	v["U"] = 0
	v["F"] = zeroCode("F")
	v["N"] = zeroCode("N")
	v["R"] = zeroCode("R")
	v["T"] = 3
	v["E"] = zeroCode("E")
	v["PX"] = zeroCode("PX")
	v["PY"] = zeroCode("PY")
	v["Pn"] = 1
	v["Z"] = 0
	v["V"] = zeroCode("V")
	v["W"] = zeroCode("W")
	v["O"] = 0
	v["Y"] = zeroCode("Y")
	v["pl"] = 0
	for f, c := range in {
		v[f] = c
	}
	if _, ok := in["Pn"]; !ok {
		_, hx := in["PX"]
		_, hy := in["PY"]
		if hx || hy {
			v["Pn"] = 0
		}
	}
	if v["Pn"] == 1 {
		v["PX"], v["PY"] = zeroCode("PX"), zeroCode("PY")
	}
	return v
}

func (r *Runner) object(slot int, in Vals) (sod.Object, Vals) {
	v := r.complete(slot, in)
	rec := buildRec(v, v["pl"])
	if r.cfg.Cust == 9 && slot%2 == 1 {
		// the same instants written in another time zone: one index key, another Go value
		rec.T = rec.T.In(time.FixedZone("east", 3*3600+1800))
	}
	if u, ok := r.slots[slot]; ok {
		rec.Initialize(u)
	} else if r.t.OwnIDs && slot%2 == 0 {
		// an identifier chosen by the caller is legal; upper-case hex is a legal spelling of a UUID
		if r.own == nil {
			r.own = map[int]string{}
		}
		if r.own[slot] == "" {
			r.own[slot] = strings.ToUpper(uuid.NewString())
		}
		rec.Initialize(r.own[slot])
	}
	// logged input: pl is logged as the payload id of the built object
	lv := Vals{}
	for f, c := range v {
		lv[f] = c
	}
	lv["pl"] = payloadID(rec)
	r.noteUsed(lv)
	return fromRec(rec, r.cfg.Plain), lv
}

func (r *Runner) project(o sod.Object) Vals {
	rec := asRec(o)
	v := encodeRec(rec)
	v["pl"] = payloadID(rec)
	return v
}

func (r *Runner) slotOf(u string) int {
	if s, ok := r.rev[u]; ok {
		return s
	}
	return 0
}

// afterWrite binds uuids after a call and returns (new, kept, fresh).
func (r *Runner) uuidFacts(slot int, o sod.Object, before string) (isNew, kept, fresh bool) {
	u := o.UUID()
	isNew = before == ""
	kept = before == "" || before == u
	fresh = !isNew || u == "" || !r.seen[u]
	if isNew && u == "" {
		kept = true
	}
	return
}

func (r *Runner) bind(slot int, u string) {
	r.seen[u] = true
	if _, ok := r.slots[slot]; !ok {
		r.slots[slot] = u
		r.rev[u] = slot
	}
}

func (r *Runner) takeHooks(ptrIdx map[*Rec]int) []ev {
	out := []ev{}
	for _, h := range hookLog {
		e := ev{"h": h.H, "i": ptrIdx[h.Ptr]}
		if h.H == "V" {
			e["v"], e["w"] = h.V, h.W
		}
		out = append(out, e)
	}
	hookLog = hookLog[:0]
	return out
}

func (r *Runner) open(create bool) string {
	sod.LowercaseNames = r.cfg.Lc
	r.db = sod.Open(r.root)
	r.hands = map[int]*sod.Search{}
	r.handQ = map[int][]Cmp{}
	r.handLim, r.handRev = map[int]int{}, map[int]bool{}
	r.lastMsg = ""
	c := "ok"
	if create {
		sch := r.schema()
		err := r.db.Create(r.proto(), sch)
		if err != nil {
			r.lastMsg = err.Error()
		}
		c = classify(err)
		if r.t.Aux {
			// the second collection is created from the VERY SAME Schema value whenever that is possible (no custom
			// field descriptors): one Schema value for several collections is the usual way to write it
			xc := ""
			if r.cfg.Cust == 0 {
				xc = classify(r.db.Create(&Aux{}, sch))
			} else {
				xc = r.auxCreate()
			}
			if xc != "ok" {
				c = "aux-" + xc
			}
		}
	}
	r.primeFlusher()
	return c
}

// primeFlusher (virtual-clock tests): the flusher goroutine of an asynchronous collection is
// started by the second schema access of a handle and takes its first decision at once.  Two
// read-only accesses right after Open make it start while nothing is pending, so that from then
// on it only acts when the driver advances the clock - which makes its schedule deterministic.
func (r *Runner) primeFlusher() {
	if !r.t.VClock {
		return
	}
	_, p0 := vtime.Sleepers()
	want := int64(0)
	r.db.Schema(r.proto())
	if s, err := r.db.Schema(r.proto()); err == nil && s.AsyncWrites != nil && s.AsyncWrites.Enable {
		want++
	}
	if r.t.Aux {
		// the second collection has a flusher of its own
		r.db.Schema(&Aux{})
		if s, err := r.db.Schema(&Aux{}); err == nil && s.AsyncWrites != nil && s.AsyncWrites.Enable {
			want++
		}
	}
	if want > 0 {
		// the flusher(s) of THIS handle and THESE settings have taken their first decision and are parked
		vtime.WaitParked(p0+want-1, settleBound)
		settle(int(want))
	}
}

// guard runs f, converting a panic into an event.
func (r *Runner) guard(what string, f func()) (panicked bool) {
	defer func() {
		if p := recover(); p != nil {
			panicked = true
			r.emit(ev{"ev": "panic", "in": what, "msg": fmt.Sprint(p), "stack": string(debug.Stack())})
		}
	}()
	f()
	return
}

func RunTest(t *Test, out *json.Encoder, workdir string) {
	root, err := os.MkdirTemp(workdir, "db")
	if err != nil {
		panic(err)
	}
	defer os.RemoveAll(root)
	if KeepDir != "" {
		defer keepGolden(t, root)
	}
	r := &Runner{t: t, cfg: t.Cfg, root: root, out: out, slots: map[int]string{}, rev: map[string]int{},
		seen: map[string]bool{}, used: map[string]map[int]bool{}, qf: t.Fields, lastArg: map[int]sod.Object{},
		xslots: map[int]string{}, xrev: map[string]int{}}
	hookLog = hookLog[:0]
	r.ghost = append(r.ghost, uuid.NewString())
	curRunner = r
	if t.Adopt != "" {
		r.adopt()
	}
	clampTimeout = false
	if !t.VClock && len(t.Threads) == 0 && mayBeAsync(t) {
		t.VClock, clampTimeout = true, true
	}
	r.emit(ev{"ev": "reset", "id": t.ID})
	if t.VClock {
		vtime.Virtual(true)
		defer r.drainFlushers()
	}
	var cc string
	if r.guard("open", func() { cc = r.open(true) }) {
		r.emit(ev{"ev": "end"})
		return
	}
	r.emit(r.header(cc))
	if t.Adopt != "" {
		r.adoptedTrace()
	}
	if len(t.Threads) > 0 {
		if !r.guard("concurrent", func() { r.runConcurrent() }) {
			r.guard("close", func() { r.db.Close() })
		}
		r.emit(ev{"ev": "end"})
		return
	}
	lastObs := false
	for i := range t.Ops {
		op := &t.Ops[i]
		lastObs = op.Op == "obs"
		r.opi = i
		if r.stop {
			break
		}
		if r.guard(op.Op, func() { r.step(op) }) {
			// a foreground panic: the handle is in an unknown state; stop the test here
			r.emit(ev{"ev": "end"})
			return
		}
	}
	if !lastObs && !t.NoObs && !r.stop {
		r.guard("obs", func() { r.obs(false, false) })
	}
	r.guard("close", func() { r.db.Close() })
	r.emit(ev{"ev": "end"})
}

// mayBeAsync: the collection has asynchronous writes enabled at some point of the test
func mayBeAsync(t *Test) bool {
	if t.Cfg.Async {
		return true
	}
	for i := range t.Ops {
		if c := t.Ops[i].Cfg; c != nil && c.Async {
			return true
		}
	}
	return false
}

func (r *Runner) header(createClass string) ev {
	fields := ev{}
	for _, f := range FieldNames {
		d := ev{"ix": 0, "uq": 0, "cn": "none"}
		switch f {
		case "K", "S":
			d["ix"], d["uq"] = 1, 1
		case "A", "U", "F", "N", "T", "Z", "O", "Y":
			if !r.cfg.Plain {
				d["ix"] = 1
			}
		case "E", "PX":
			d["ix"] = 1
		}
		if k := CaseKind[f]; k != "" {
			d["cn"] = k
		}
		if c, ok := custom(r.cfg.Cust)[f]; ok {
			d["ix"], d["uq"] = 0, 0
			if c.Index || c.Unique {
				d["ix"] = 1
			}
			if c.Unique {
				d["uq"] = 1
			}
			if c.Lower {
				d["cn"] = "lower"
			}
		}
		fields[f] = d
	}
	h := ev{"ev": "hdr", "id": r.t.ID, "c": createClass, "cfg": r.cfg, "schema": fields,
		"tr":  ev{"V": trVCodes(), "W": [][]int{{caseLower.encode(trWFrom), caseLower.encode(trWTo)}}},
		"inv": ev{"V": []int{idxInt(uniV, invV)}, "W": []int{caseLower.encode(invW)}}}
	if custom(r.cfg.Cust)["Z"].Lower {
		// Z is a plain string field (code = rank in uniZ): its canonicalisation is a table, code -> code of the lower-cased value
		canon := make([]int, len(uniZ))
		for i, v := range uniZ {
			if custom(r.cfg.Cust)["Z"].Upper {
				v = strings.ToUpper(v)
			}
			canon[i] = idxStr(uniZ, strings.ToLower(v))
		}
		h["canon"] = ev{"Z": canon}
	}
	return h
}

func trVCodes() [][]int {
	out := [][]int{}
	for _, t := range trV {
		out = append(out, []int{idxInt(uniV, t[0]), idxInt(uniV, t[1])})
	}
	return out
}

// call runs one API call with the fault engines armed only for its duration.
func (r *Runner) call(op *Op, f func()) {
	crash := op.Crash || r.t.CrashAll
	r.fired, r.fsops, r.pre, r.faultAt = false, nil, nil, nil
	vfs.Reset()
	if crash {
		r.pre = snapshotDir(r.root)
		vfs.Record(true)
	}
	if op.Fault > 0 {
		vfs.Record(true) // where the fault fell is part of the recording (faultAt)
		vfs.SetFault(op.Fault, op.Fsub)
	}
	defer func() {
		if op.Fault > 0 {
			r.fired = vfs.Faulted()
			vfs.Record(false)
			ops := vfs.Drain()
			r.faultAt = faultPosition(ops)
			if crash {
				r.fsops = ops
			}
		} else if crash {
			vfs.Record(false)
			r.fsops = vfs.Drain()
		}
		vfs.Reset()
	}()
	f()
}

// faultPosition says where in the call's file-system steps the injected fault fell: the kind of the failing step, what
// it was aimed at, and how many object files / schema files the call had ALREADY replaced or removed by then.
func faultPosition(ops []*vfs.Op) ev {
	isObj := func(p string) bool {
		b := filepath.Base(p)
		return b != "schema.json" && !strings.HasPrefix(b, ".")
	}
	obj, sch := 0, 0
	for _, o := range ops {
		if o.Fault {
			tgt := "other"
			switch {
			case filepath.Base(o.Path) == "schema.json" || filepath.Base(o.Path2) == "schema.json",
				strings.HasPrefix(filepath.Base(o.Path), ".schema.json"), strings.HasPrefix(filepath.Base(o.Path2), ".schema.json"):
				tgt = "sch" // the schema itself or the temporary file it is written to
			case o.Kind == "rename" && isObj(o.Path2), o.Kind == "remove" && isObj(o.Path):
				tgt = "obj"
			case strings.HasPrefix(filepath.Base(o.Path), "."):
				tgt = "tmp"
			}
			return ev{"kind": o.Kind, "tgt": tgt, "obj": obj, "sch": sch, "mut": o.Mut}
		}
		if o.Err || !o.Mut {
			continue
		}
		switch {
		case o.Kind == "rename" && filepath.Base(o.Path2) == "schema.json":
			sch++
		case o.Kind == "rename" && isObj(o.Path2), o.Kind == "remove" && isObj(o.Path):
			obj++
		}
	}
	return nil
}

// after runs the fault engines on what the call recorded.
func (r *Runner) after(op *Op, class string) {
	if r.pre != nil {
		r.crashSweep(r.opi, r.pre, r.fsops)
		r.pre, r.fsops = nil, nil
	}
	if r.fired {
		// a storage fault was injected into this call: observe the live handle, then recover with a fresh one
		r.recs, r.recIdx = []Vals{}, map[string]int{}
		e := ev{"ev": "fault", "k": op.Fault, "sub": op.Fsub, "c": class}
		if r.faultAt != nil {
			e["at"] = r.faultAt
		}
		e["obs0"] = r.guardObs()
		r.guardClass(func() error { return nil })
		rec := r.recovery(r.root)
		for k, v := range rec {
			e[k] = v
		}
		e["recs"] = r.recs
		r.emit(e)
		r.stop = true
	}
}

func (r *Runner) step(op *Op) {
	switch op.Op {
	case "damage":
		r.damage(op)
		return
	case "corrupt":
		r.corrupt(op)
		r.stop = true
		return
	}
	switch op.Op {
	case "put":
		r.put(op)
	case "many":
		r.many(op)
	case "bulkfeed":
		// InsertOrUpdateBulk fed by a producer that USES the same handle between two objects (a migration reading one
		// collection and importing into another does): whatever the import holds while it waits for the next object,
		// it is not a lock the producer needs
		objs := []sod.Object{}
		for _, b := range op.Batch {
			o, _ := r.object(b.Slot, b.O)
			objs = append(objs, o)
		}
		ch := make(chan sod.Object)
		go func() {
			for _, o := range objs {
				r.db.Count(r.proto())
				r.db.Search(r.proto(), "K", ">=", int64(0)).Len()
				ch <- o
			}
			close(ch)
		}()
		n, err := r.db.InsertOrUpdateBulk(ch, op.Csize)
		r.emit(ev{"ev": "note", "what": "bulkfeed", "n": n, "c": classify(err)})
	case "del":
		r.del(op)
	case "delall":
		var err error
		via := r.viaIter(op)
		if via {
			// the other spelling of the same request: an iterator over the collection handed to DeleteObjects
			it, e := r.db.Iterator(r.proto())
			if e != nil {
				err = e
			} else {
				r.call(op, func() { err = r.db.DeleteObjects(it) })
			}
		} else {
			r.call(op, func() { err = r.db.DeleteAll(r.proto()) })
		}
		c := classify(err)
		r.emit(ev{"ev": "delall", "c": c, "fired": r.fired, "iter": via})
		r.after(op, c)
	case "delsearch":
		r.delsearch(op)
	case "reopen":
		r.reopen(op)
	case "obs":
		r.xqs = op.Qs
		r.obs(false, op.Light)
		r.xqs = nil
	case "eval":
		r.eval(op)
	case "derive":
		r.derive(op)
	case "collect":
		r.collect(op)
	case "mutate":
		r.mutate(op)
	case "args":
		r.args(op)
	case "tick":
		r.tick(op)
	case "switch":
		r.switchCfg(op)
	case "flush":
		r.flush(op)
	case "flushone":
		r.flushOne(op)
	case "drop":
		r.dropOp(op)
	case "repair":
		// Repair on the live handle: with an index in order it changes nothing (sweeps and flushes that follow are the oracle)
		c := classify(r.db.Repair(r.proto()))
		r.emit(ev{"ev": "repair", "c": c})
	case "xput":
		r.xput(op)
	case "xdel":
		r.xdel(op)
	case "xflush":
		r.xflush(op)
	default:
		panic("unknown op " + op.Op)
	}
}

// viaIter chooses, deterministically per test and position, the iterator spelling of a bulk delete
func (r *Runner) viaIter(op *Op) bool {
	if op.Via != "" {
		return op.Via == "iter"
	}
	h := fnv.New32a()
	h.Write([]byte(r.t.ID))
	return (int(h.Sum32()%3)+r.opi)%3 == 0
}

func (r *Runner) put(op *Op) {
	o, in := r.object(op.Slot, op.O)
	before := o.UUID()
	rec := asRec(o)
	switch op.Bad {
	case "nan":
		rec.F = math.NaN()
	case "inf":
		rec.F = math.Inf(-1)
	case "chan":
		rec.I = make(chan int)
	}
	var err error
	r.call(op, func() { err = r.db.InsertOrUpdate(o) })
	c := classify(err)
	r.lastArg[op.Slot] = o
	isNew, kept, fresh := r.uuidFacts(op.Slot, o, before)
	e := ev{"ev": "put", "slot": op.Slot, "o": in, "after": r.project(o), "c": c, "new": isNew, "kept": kept, "fresh": fresh,
		"hooks": r.takeHooks(map[*Rec]int{rec: 1})}
	if c != "ok" {
		e["msg"] = err.Error()
	}
	if c == "ok" || (r.fired && o.UUID() != "") {
		// (under an injected fault the identifier stays attached to the slot: the write may be on disk)
		r.bind(op.Slot, o.UUID())
	} else if isNew && o.UUID() != "" {
		r.seen[o.UUID()] = true
		r.ghost = append(r.ghost, o.UUID())
	}
	e["fired"] = r.fired
	r.emit(e)
	if c != "ok" && !r.fired {
		r.obs(true, false)
	}
	r.after(op, c)
}

func (r *Runner) many(op *Op) {
	objs := make([]sod.Object, 0, len(op.Batch))
	ents := make([]ev, 0, len(op.Batch))
	befores := make([]string, 0, len(op.Batch))
	ptrIdx := map[*Rec]int{}
	// an unbound slot occurring several times in one batch denotes ONE object identity:
	// give it its identifier beforehand (an identified object keeps its UUID)
	occ := map[int]int{}
	for _, b := range op.Batch {
		if !b.Other && b.SameAs == 0 {
			occ[b.Slot]++
		}
	}
	pre := map[int]string{}
	for s, n := range occ {
		if _, bound := r.slots[s]; !bound && n > 1 {
			pre[s] = uuid.NewString()
		}
	}
	for i, b := range op.Batch {
		switch {
		case b.Other:
			objs = append(objs, &Other{K: int64(1000 + i)})
			ents = append(ents, ev{"slot": 0, "other": true})
			befores = append(befores, "")
		case b.SameAs > 0:
			objs = append(objs, objs[b.SameAs-1])
			ents = append(ents, ev{"slot": op.Batch[b.SameAs-1].Slot, "same_as": b.SameAs, "o": ents[b.SameAs-1]["o"]})
			befores = append(befores, befores[b.SameAs-1])
		default:
			o, in := r.object(b.Slot, b.O)
			if u, ok := pre[b.Slot]; ok {
				o.Initialize(u)
			}
			objs = append(objs, o)
			ents = append(ents, ev{"slot": b.Slot, "o": in})
			befores = append(befores, o.UUID())
			ptrIdx[asRec(o)] = i + 1
		}
	}
	var n int
	var err error
	r.call(op, func() {
		if op.Csize > 0 {
			ch := make(chan sod.Object)
			go func() {
				defer close(ch)
				for _, o := range objs {
					ch <- o
				}
			}()
			n, err = r.db.InsertOrUpdateBulk(ch, op.Csize)
			// drain in case of early return
			for range ch {
			}
		} else {
			n, err = r.db.InsertOrUpdateMany(objs...)
		}
	})
	c := classify(err)
	// which entries count as stored: all (ok), or the first n (bulk stops at a chunk boundary)
	for i, o := range objs {
		if op.Batch[i].Other {
			continue
		}
		r.lastArg[op.Batch[i].Slot] = o
		isNew, kept, fresh := r.uuidFacts(op.Batch[i].Slot, o, befores[i])
		ents[i]["after"] = r.project(o)
		ents[i]["new"], ents[i]["kept"], ents[i]["fresh"] = isNew, kept, fresh
	}
	for i, o := range objs {
		if op.Batch[i].Other {
			continue
		}
		if i < n || (r.fired && o.UUID() != "") {
			r.bind(op.Batch[i].Slot, o.UUID())
		} else if befores[i] == "" && o.UUID() != "" {
			if _, bound := r.rev[o.UUID()]; !bound {
				r.seen[o.UUID()] = true
				r.ghost = append(r.ghost, o.UUID())
			}
		}
	}
	e := ev{"ev": "many", "batch": ents, "csize": op.Csize, "c": c, "n": n, "hooks": r.takeHooks(ptrIdx), "fired": r.fired}
	if err != nil {
		e["msg"] = err.Error()
	}
	r.emit(e)
	if c != "ok" && !r.fired {
		r.obs(true, false)
	}
	r.after(op, c)
}

func (r *Runner) ident(slot int) sod.Object {
	o := r.proto()
	if u, ok := r.slots[slot]; ok {
		o.Initialize(u)
	} else {
		o.Initialize(r.ghost[0])
	}
	return o
}

func (r *Runner) del(op *Op) {
	o := r.ident(op.Slot)
	var err error
	r.call(op, func() { err = r.db.Delete(o) })
	c := classify(err)
	r.emit(ev{"ev": "del", "slot": op.Slot, "c": c, "fired": r.fired})
	r.after(op, c)
}

func (r *Runner) reopen(op *Op) {
	c := "ok"
	if op.Close {
		var err error
		r.call(op, func() { err = r.db.Close() })
		c = classify(err)
		r.after(op, c)
	}
	// what the directory holds once Close has returned
	r.recs, r.recIdx = []Vals{}, map[string]int{}
	dir := r.walk()
	if r.t.VClock && op.Close {
		r.retireFlushers()
	}
	recs := r.recs
	e := ev{"ev": "reopen", "close": op.Close, "create": op.Create, "c": c, "dir": dir, "recs": recs}
	if r.t.Aux {
		e["xdir"] = r.xwalk()
	}
	e["cc"] = r.open(op.Create)
	e["msg"] = r.lastMsg
	r.emit(e)
}

func (r *Runner) flush(op *Op) {
	var err error
	r.call(op, func() {
		switch op.What {
		case "all":
			err = r.db.FlushAll(r.proto())
		case "allcommit":
			err = r.db.FlushAllAndCommit(r.proto())
		case "commit":
			err = r.db.Commit(r.proto())
		}
	})
	r.after(op, classify(err))
	r.recs, r.recIdx = []Vals{}, map[string]int{}
	dir := r.walk()
	r.emit(ev{"ev": "flush", "what": op.What, "c": classify(err), "dir": dir, "recs": r.recs})
}

// dropOp: Drop() on the live handle, two reads while nothing exists, then Create (possibly with other
// cache / async settings) on the same handle.
func (r *Runner) dropOp(op *Op) {
	c := r.cfg
	if op.Cfg != nil {
		c.Cache, c.Async = op.Cfg.Cache, op.Cfg.Async
	}
	dc := classify(r.db.Drop())
	n, cerr := r.db.Count(r.proto())
	objs, aerr := r.db.All(r.proto())
	probe := ev{"count_c": classify(cerr), "count": n, "all_c": classify(aerr), "all_n": len(objs)}
	r.cfg = c
	cc := classify(r.db.Create(r.proto(), r.schema()))
	if r.t.Aux {
		if xc := r.auxCreate(); xc != "ok" {
			cc = "aux-" + xc
		}
	}
	if r.t.VClock {
		// the flushers of the dropped collections find themselves retired at their next wake-up: let them go now (no
		// virtual time passes), then wait for the flusher(s) of the re-created collection(s) to park
		vtime.Kick()
		for dl := time.Now().Add(settleBound); time.Now().Before(dl); {
			if n, _ := vtime.Sleepers(); n == 0 {
				break
			}
			time.Sleep(100 * time.Microsecond)
		}
		r.primeFlusher()
	}
	r.hands, r.handQ = map[int]*sod.Search{}, map[int][]Cmp{}
	r.recs, r.recIdx = []Vals{}, map[string]int{}
	dir := r.walk()
	e := ev{"ev": "drop", "c": dc, "probe": probe, "cc": cc, "cfg": r.cfg, "dir": dir, "recs": r.recs}
	if r.t.Aux {
		e["xdir"] = r.xwalk()
	}
	r.emit(e)
}

// flushOne: Flush(o) / FlushAndCommit(o).  The object handed over only identifies what to flush; three
// spellings of it: the very object last passed to a write of that slot ("same": by now possibly rejected
// or scribbled over), a copy with the accepted identity and other, invalid, values ("dirty"), an object
// carrying nothing but the identifier ("blank").  For a slot that was never stored a ghost identifier.
func (r *Runner) flushOne(op *Op) {
	u, bound := r.slots[op.Slot]
	if !bound {
		u = r.ghost[0]
	}
	var o sod.Object
	if op.What == "same" && r.lastArg[op.Slot] != nil {
		o = r.lastArg[op.Slot]
	}
	if o == nil {
		o = r.proto()
		o.Initialize(u)
		if op.What == "dirty" {
			rec := asRec(o)
			rec.K, rec.A, rec.S, rec.V, rec.W = 424242, 4242, "Dirty", invV, invW
		}
	}
	var err error
	if op.Commit {
		err = r.db.FlushAndCommit(o)
	} else {
		err = r.db.Flush(o)
	}
	r.recs, r.recIdx = []Vals{}, map[string]int{}
	dir := r.walk()
	r.emit(ev{"ev": "flushone", "slot": op.Slot, "bound": bound, "commit": op.Commit, "what": op.What, "c": classify(err), "dir": dir, "recs": r.recs})
}

// ---------------------------------------------------------------- probes and searches

func probeValue(f string, code int, ptype string) interface{} {
	var v interface{}
	switch f {
	case "K":
		v = uniK[code]
	case "A":
		v = uniA[code]
	case "U":
		v = uniU[code]
	case "F":
		v = uniF[code]
	case "N", "PY", "R":
		v = caseUpper.value(code)
	case "S", "W":
		v = caseLower.value(code)
	case "T":
		v = uniT[code]
	case "E":
		v = uniE[code]
	case "PX":
		v = uniX[code]
	case "Z":
		v = uniZ[code]
	case "V":
		v = uniV[code]
	case "O":
		v = uniO[code]
	case "Y":
		v = uniY[code]
	default:
		panic("probeValue " + f)
	}
	return v
}

// runQuery evaluates a left-deep query chain.
func (r *Runner) runQuery(q []Cmp) *sod.Search {
	var s *sod.Search
	for i, c := range q {
		var val interface{}
		op := c.Op
		if op == "~=" || op == "~!" {
			val = c.Pat
			op = "~="
		} else {
			val = probeValue(c.F, c.P, c.Ptype)
		}
		path := Path[c.F]
		switch {
		case i == 0:
			s = r.db.Search(r.proto(), path, op, val)
		case c.Conn == "and":
			s = s.And(path, op, val)
		case c.Conn == "or":
			s = s.Or(path, op, val)
		default:
			s = s.Operation(c.Conn, path, op, val)
		}
	}
	return s
}

func (r *Runner) slotsOf(objs []sod.Object) []int {
	out := make([]int, 0, len(objs))
	for _, o := range objs {
		out = append(out, r.slotOf(o.UUID()))
	}
	return out
}

func qjson(q []Cmp) []interface{} {
	out := []interface{}{}
	for _, c := range q {
		conn := c.Conn
		if conn == "" {
			conn = "first"
		}
		var p interface{} = c.P
		if c.Op == "~=" || c.Op == "~!" {
			p = regexMatchSet(c.F, c.Pat)
		}
		out = append(out, []interface{}{conn, c.F, c.Op, p})
	}
	return out
}

func (r *Runner) delsearch(op *Op) {
	s := r.runQuery(op.Q)
	n := s.Len()
	var err error
	via := r.viaIter(op)
	if via {
		// the other spelling: the search's iterator handed to DeleteObjects
		it, e := s.Iterator()
		if e != nil {
			err = e
		} else {
			r.call(op, func() { err = r.db.DeleteObjects(it) })
		}
	} else {
		r.call(op, func() { err = s.Delete() })
	}
	c := classify(err)
	r.emit(ev{"ev": "delsearch", "q": qjson(op.Q), "c": c, "len": n, "fired": r.fired, "iter": via})
	r.after(op, c)
}

// derive refines a KEPT search value with one more comparison into a new handle; the kept one goes on being used
// (And / Or / Operation give a new search value and leave their receiver alone; Reverse and Limit are settings OF their
// receiver by design and are not called on a kept value).
func (r *Runner) derive(op *Op) {
	parent := r.hands[op.From]
	if parent == nil || len(op.Q) != 1 {
		panic("derive: unknown parent handle or not exactly one comparison")
	}
	c := op.Q[0]
	var val interface{}
	o := c.Op
	if o == "~=" || o == "~!" {
		val, o = c.Pat, "~="
	} else {
		val = probeValue(c.F, c.P, c.Ptype)
	}
	var s *sod.Search
	switch c.Conn {
	case "and":
		s = parent.And(Path[c.F], o, val)
	case "or":
		s = parent.Or(Path[c.F], o, val)
	default:
		s = parent.Operation(c.Conn, Path[c.F], o, val)
	}
	full := append(append([]Cmp{}, r.handQ[op.From]...), c)
	r.hands[op.H], r.handQ[op.H] = s, full
	if r.handLim != nil {
		delete(r.handLim, op.H)
		delete(r.handRev, op.H)
	}
	r.emit(ev{"ev": "derive", "h": op.H, "from": op.From, "q": qjson(full), "c": classify(s.Err()), "len": s.Len()})
}

func (r *Runner) eval(op *Op) {
	s := r.runQuery(op.Q)
	r.hands[op.H] = s
	r.handQ[op.H] = op.Q
	if r.handLim != nil {
		delete(r.handLim, op.H)
		delete(r.handRev, op.H)
	}
	r.emit(ev{"ev": "eval", "h": op.H, "q": qjson(op.Q), "c": classify(s.Err()), "len": s.Len()})
}

func (r *Runner) collect(op *Op) {
	s := r.hands[op.H]
	if s == nil {
		panic("collect: unknown handle")
	}
	if r.handLim == nil {
		r.handLim, r.handRev = map[int]int{}, map[int]bool{}
	}
	if op.Rev {
		s = s.Reverse()
		r.handRev[op.H] = true
	}
	if op.Lim >= 0 {
		s = s.Limit(uint64(op.Lim))
		r.handLim[op.H] = op.Lim
	}
	// what is in force for THIS collection: the settings asked for now or earlier on this search value (a value that
	// was collected before - with One, with a limit - is collected again under its settings, not under what the
	// earlier collection used up)
	rev, lim := r.handRev[op.H], -1
	if l, ok := r.handLim[op.H]; ok {
		lim = l
	}
	e := ev{"ev": "collect", "h": op.H, "rev": rev, "lim": lim, "what": op.What, "n": op.N}
	items := [][]interface{}{}
	add := func(objs ...sod.Object) {
		for _, o := range objs {
			if o != nil {
				items = append(items, []interface{}{r.slotOf(o.UUID()), r.project(o)})
			}
		}
	}
	switch op.What {
	case "one":
		o, err := s.One()
		e["c"] = classify(err)
		if err == nil {
			add(o)
		}
	case "assignone":
		var o sod.Object = r.proto()
		err := s.AssignOne(&o)
		e["c"] = classify(err)
		if err == nil {
			add(o)
		}
	case "assignunique":
		// zero or exactly one result expected
		var o sod.Object = r.proto()
		err := s.AssignUnique(&o)
		e["c"] = classify(err)
		if err == nil {
			add(o)
		}
	case "assign":
		var objs []sod.Object
		if r.opi%2 == 1 {
			// a target that already holds something (reused from an earlier call): it is replaced, not extended
			objs = []sod.Object{r.proto(), r.proto()}
		}
		err := s.Assign(&objs)
		e["c"] = classify(err)
		if err == nil {
			add(objs...)
		}
	case "expects", "expectszn":
		// the number of results must be N (or, for expectszn, zero or N), otherwise collecting fails
		if op.What == "expects" {
			s = s.Expects(op.N)
		} else {
			s = s.ExpectsZeroOrN(op.N)
		}
		objs, err := s.Collect()
		e["c"] = classify(err)
		if err == nil {
			add(objs...)
		}
	default:
		objs, err := s.Collect()
		e["c"] = classify(err)
		add(objs...)
	}
	e["items"] = items
	r.emit(e)
}

func (r *Runner) mutate(op *Op) { r.mutateImpl(op) }

// probesFor lists the probe codes of a field: every used code and its neighbours.
func (r *Runner) probesFor(f string) []int {
	set := map[int]bool{}
	mul := 1
	if CaseKind[f] != "" {
		mul = CaseMul
	}
	n := UniSize(f)
	for c := range r.used[f] {
		cl := c / mul
		for _, d := range []int{-1, 0, 1} {
			if cl+d >= 0 && cl+d < n {
				set[(cl+d)*mul] = true
			}
		}
		if mul > 1 && c%mul != 0 {
			set[c] = true // the non-canonical spelling itself as a probe
		}
	}
	out := []int{}
	for c := range set {
		out = append(out, c)
	}
	sort.Ints(out)
	return out
}

// ---------------------------------------------------------------- virtual clock (C10, C17)

// settleBound: how long (real time) the driver waits for a flusher goroutine to park.  The waits return as soon as
// their condition holds; the bound only matters when the goroutine does not exist or is blocked.
const settleBound = 5 * time.Second

// settle waits (real time) until the flusher goroutines are parked in Sleep.  The bound is generous: on a
// loaded machine a goroutine may be kept off the CPU for a long time, and returning early would make the
// driver observe the directory before the flusher has taken its decision.  It returns at once when the
// condition holds, so the bound only matters when something is wrong: a flusher that has not parked after
// settleBound does not exist or is blocked, and the step is judged as it is (the event says "settled": false).
func settle(want int) bool {
	deadline := time.Now().Add(settleBound)
	for time.Now().Before(deadline) {
		n, _ := vtime.Sleepers()
		if n >= want {
			return true
		}
		time.Sleep(100 * time.Microsecond)
	}
	return false
}

// tick advances the virtual clock by one poll period (100 ms) of the flusher and waits until the
// flusher has taken its decision (flushed or not) and is parked again.  The directory walk of the
// event is what tells whether it flushed.
func (r *Runner) tick(op *Op) {
	n := op.N
	if n <= 0 {
		n = 1
	}
	settled := true
	for i := 0; i < n; i++ {
		if r.cfg.Async {
			settled = settle(1) && settled
		}
		sl, p0 := vtime.Sleepers()
		vtime.Advance(100 * time.Millisecond)
		if sl > 0 {
			settled = vtime.WaitParked(p0+int64(sl)-1, settleBound) >= p0+int64(sl) && settled
			settled = settle(sl) && settled
		}
	}
	r.recs, r.recIdx = []Vals{}, map[string]int{}
	fl, _ := vtime.Sleepers()
	e := ev{"ev": "tick", "n": n, "dir": r.walk(), "fl": fl, "settled": settled}
	if r.t.Aux {
		e["xdir"] = r.xwalk()
	}
	e["recs"] = r.recs
	r.emit(e)
}

// retireFlushers lets the flusher goroutines of closed handles run to completion
// (they notice the cancelled context at their next due wake-up).
func (r *Runner) retireFlushers() {
	// (a flusher polls until ITS timeout has elapsed before it looks at the cancelled context, one poll period per
	// wake-up: virtual-clock tests use timeouts of a few poll periods)
	for dl := time.Now().Add(time.Second); time.Now().Before(dl); {
		n, _ := vtime.Sleepers()
		if n == 0 {
			break
		}
		vtime.Advance(1000 * time.Hour)
		time.Sleep(100 * time.Microsecond)
	}
}

// drainFlushers: end of a virtual-clock test.
func (r *Runner) drainFlushers() {
	r.retireFlushers()
	vtime.Virtual(false)
}

// switchCfg re-creates the collection with other cache / async settings (C17).
func (r *Runner) switchCfg(op *Op) {
	if op.VOnly && !r.t.Cfg.Swy {
		// the twin run of a C12 pair: the collection keeps its settings throughout
		r.emit(ev{"ev": "switch", "c": "ok", "cfg": r.cfg, "skipped": true})
		return
	}
	c := r.cfg
	if op.Cfg != nil {
		c.Cache, c.Async, c.Thr, c.TmoMs = op.Cfg.Cache, op.Cfg.Async, op.Cfg.Thr, op.Cfg.TmoMs
	}
	old := r.cfg
	r.cfg = c
	sch := r.schema()
	if op.What == "gz" {
		// the schema handed over also asks for the opposite compression: how existing objects are stored is not a
		// setting Create can change on a populated collection, the request is ignored (files keep their names)
		sch.Compress = !sch.Compress
	}
	err := r.db.Create(r.proto(), sch)
	cl := classify(err)
	if err != nil {
		r.cfg = old
	}
	if r.t.VClock && err == nil && old.Async {
		// the settings were replaced: the flusher goroutine of the old ones finds that out at its next wake-up and
		// exits.  Let it do so now (no virtual time passes), so that only the successor is parked from here on.
		vtime.Kick()
		for dl := time.Now().Add(settleBound); time.Now().Before(dl); {
			if n, _ := vtime.Sleepers(); n == 0 {
				break
			}
			time.Sleep(100 * time.Microsecond)
		}
	}
	r.primeFlusher()
	r.emit(ev{"ev": "switch", "c": cl, "cfg": r.cfg})
}
