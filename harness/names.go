package main

import (
	"encoding/json"
	"flag"
	"os"
	"sort"

	"github.com/0xrawsec/sod"

	"verifh/names/n"
)

// C18: directory names of collections whose type names stress the snake-case conversion.
// The reference is the same command run on the pinned release (golden/names.json).

func init() { extraCmds["names"] = cmdNames }

func cmdNames(args []string) {
	fs := flag.NewFlagSet("names", flag.ExitOnError)
	out := fs.String("out", "", "json output")
	work := fs.String("work", "/dev/shm", "scratch directory")
	fs.Parse(args)
	got := map[string][]string{}
	for name, obj := range n.All() {
		for _, lc := range []bool{false, true} {
			root, _ := os.MkdirTemp(*work, "names")
			sod.LowercaseNames = lc
			db := sod.Open(root)
			entry := "?"
			func() {
				defer func() {
					if p := recover(); p != nil {
						entry = "panic"
					}
				}()
				if err := db.Create(obj, sod.DefaultSchema); err != nil {
					entry = "create:" + classify(err)
					return
				}
				obj.Initialize("")
				if err := db.InsertOrUpdate(obj); err != nil {
					entry = "insert:" + classify(err)
					return
				}
				db.Close()
				ents, _ := os.ReadDir(root)
				names := []string{}
				for _, e := range ents {
					names = append(names, e.Name())
				}
				sort.Strings(names)
				b, _ := json.Marshal(names)
				entry = string(b)
			}()
			got[name] = append(got[name], entry)
			os.RemoveAll(root)
		}
	}
	sod.LowercaseNames = false
	b, _ := json.MarshalIndent(got, "", " ")
	os.WriteFile(*out, b, 0o644)
}
