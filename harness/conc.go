package main

import (
	"fmt"
	"runtime"
	"runtime/debug"
	"sort"
	"sync"
	"sync/atomic"
	"time"

	"github.com/0xrawsec/sod"
	"github.com/0xrawsec/sod/verifshim/vfs"
	"github.com/0xrawsec/sod/verifshim/vtime"
	"github.com/google/uuid"
)

// Concurrent histories (C08, C09).  The calls of every goroutine are recorded
// as invocation / return events ordered by a sequence number drawn immediately
// before and after the call.  Returned objects are kept as they are and only
// projected to codes after all goroutines are done, so that recording touches
// no shared memory during the run.  In a race-detector build (NoRecord) not
// even the sequence counter is used: any synchronisation of the driver's own
// would add happens-before edges and hide races of the package.

type cev struct {
	seq  int64
	g    int
	kind string // inv | ret
	op   *Op
	// results (ret)
	c     string
	n     int
	b     bool
	obj   sod.Object
	objs  []sod.Object
	panic string
}

func (r *Runner) runConcurrent() {
	t := r.t
	// identities are fixed up front: every slot has its uuid
	maxSlot := 0
	scan := func(ops []Op) {
		for _, o := range ops {
			if o.Slot > maxSlot {
				maxSlot = o.Slot
			}
			for _, b := range o.Batch {
				if b.Slot > maxSlot {
					maxSlot = b.Slot
				}
			}
		}
	}
	scan(t.Ops)
	for _, th := range t.Threads {
		scan(th)
	}
	for s := 1; s <= maxSlot; s++ {
		r.bind(s, uuid.NewString())
	}
	// sequential set-up
	for i := range t.Ops {
		op := &t.Ops[i]
		if op.Op != "put" {
			continue
		}
		o, in := r.object(op.Slot, op.O)
		err := r.db.InsertOrUpdate(o)
		if err == nil {
			r.emit(ev{"ev": "setup", "slot": op.Slot, "o": r.project(o), "in": in})
		}
	}
	if t.Reopen {
		// the goroutines race on the first access after Open
		r.db.Close()
		r.open(false)
	}
	// the flusher of asynchronous collections polls every 100 ms: scaled down so that it is active
	// during the few milliseconds the goroutines run
	vtime.Scale(200)
	defer vtime.Scale(1)
	var ctr int64
	logs := make([][]cev, len(t.Threads))
	var wg sync.WaitGroup
	if t.Perturb {
		vfs.SetPerturb(true)
		defer vfs.SetPerturb(false)
	}
	start := make(chan struct{})
	for g := range t.Threads {
		wg.Add(1)
		go func(g int) {
			defer wg.Done()
			<-start
			for i := range t.Threads[g] {
				op := &t.Threads[g][i]
				inv := cev{g: g + 1, kind: "inv", op: op}
				if !t.NoRecord {
					inv.seq = atomic.AddInt64(&ctr, 1)
				}
				ret := r.doConc(g+1, op)
				if !t.NoRecord {
					ret.seq = atomic.AddInt64(&ctr, 1)
				}
				logs[g] = append(logs[g], inv, ret)
				if t.Yield {
					runtime.Gosched()
				}
			}
		}(g)
	}
	close(start)
	wg.Wait()
	hookLog = hookLog[:0]
	if !t.NoRecord {
		all := []cev{}
		for _, l := range logs {
			all = append(all, l...)
		}
		sort.Slice(all, func(i, j int) bool { return all[i].seq < all[j].seq })
		for _, c := range all {
			r.emit(r.concEvent(&c))
		}
	} else {
		for _, l := range logs {
			for _, c := range l {
				if c.panic != "" {
					r.emit(ev{"ev": "panic", "in": c.op.Op, "msg": c.panic})
				}
			}
		}
	}
	// the final state, observed sequentially
	objs, err := r.db.All(r.proto())
	items := [][]interface{}{}
	for _, o := range objs {
		items = append(items, []interface{}{r.slotOf(o.UUID()), r.project(o)})
	}
	fe := ev{"ev": "final", "c": classify(err), "items": items}
	if t.FinalCheck {
		// histories judged by their final state only (spec/SodFinal.tla)
		n, cerr := r.db.Count(r.proto())
		fe["count"], fe["count_c"] = n, classify(cerr)
		fe["control"] = classify(r.db.Control())
		r.recs, r.recIdx = []Vals{}, map[string]int{}
		d := r.walk()
		fe["nfiles"] = len(d["files"].([][]interface{}))
	}
	r.emit(fe)
}

func auxUUID(slot int) string { return fmt.Sprintf("00000000-0000-4000-8000-%012d", slot) }

func (r *Runner) concObject(slot int, v Vals) sod.Object {
	cv := r.complete(slot, v)
	rec := buildRec(cv, 0)
	rec.Initialize(r.slots[slot])
	return fromRec(rec, r.cfg.Plain)
}

// doConc executes one call; it touches nothing shared but the database.
func (r *Runner) doConc(g int, op *Op) (ret cev) {
	ret = cev{g: g, kind: "ret", op: op}
	defer func() {
		if p := recover(); p != nil {
			ret.c = "panic"
			ret.panic = fmt.Sprint(p) + "\n" + string(debug.Stack())
		}
	}()
	ident := func(slot int) sod.Object {
		o := newObj(r.cfg.Plain)
		o.Initialize(r.slots[slot])
		return o
	}
	var err error
	switch op.Op {
	case "put":
		err = r.db.InsertOrUpdate(r.concObject(op.Slot, op.O))
	case "many":
		objs := []sod.Object{}
		for _, b := range op.Batch {
			objs = append(objs, r.concObject(b.Slot, b.O))
		}
		ret.n, err = r.db.InsertOrUpdateMany(objs...)
	case "del":
		err = r.db.Delete(ident(op.Slot))
	case "delall":
		err = r.db.DeleteAll(newObj(r.cfg.Plain))
	case "delq":
		c := op.Q[0]
		err = r.db.Search(newObj(r.cfg.Plain), Path[c.F], c.Op, probeValue(c.F, c.P, "")).Delete()
	case "get":
		ret.obj, err = r.db.Get(ident(op.Slot))
	case "exist":
		ret.b, err = r.db.Exist(ident(op.Slot))
	case "count":
		ret.n, err = r.db.Count(newObj(r.cfg.Plain))
	case "all":
		ret.objs, err = r.db.All(newObj(r.cfg.Plain))
	case "q":
		s := r.db.Search(newObj(r.cfg.Plain), Path[op.Q[0].F], op.Q[0].Op, probeValue(op.Q[0].F, op.Q[0].P, ""))
		for _, c := range op.Q[1:] {
			if c.Conn == "or" {
				s = s.Or(Path[c.F], c.Op, probeValue(c.F, c.P, ""))
			} else {
				s = s.And(Path[c.F], c.Op, probeValue(c.F, c.P, ""))
			}
		}
		ret.objs, err = s.Collect()
	case "flush":
		err = r.db.FlushAllAndCommit(newObj(r.cfg.Plain))
	case "control":
		r.db.Control()
	case "aidx":
		var t []int64
		err = r.db.AssignIndex(newObj(r.cfg.Plain), "K", &t)
	case "closecall":
		// Close, let the flusher notice (its poll period is scaled down), then use the handle again
		err = r.db.Close()
		time.Sleep(8 * time.Millisecond)
		if err == nil {
			ret.n, err = r.db.Count(newObj(r.cfg.Plain))
		}
	case "drop":
		// Drop, then the collection is created again (two calls; whoever comes in between finds no collection)
		if err = r.db.Drop(); err == nil {
			err = r.db.Create(newObj(r.cfg.Plain), schemaFor(r.cfg))
		}
	case "xput":
		// the second collection (race-detector runs only: results are not recorded): fixed identifiers per slot
		a := &Aux{K: op.K, A: op.A}
		a.Initialize(auxUUID(op.Slot))
		err = r.db.InsertOrUpdate(a)
	case "xget":
		a := &Aux{}
		a.Initialize(auxUUID(op.Slot))
		_, err = r.db.Get(a)
	case "xcount":
		ret.n, err = r.db.Count(&Aux{})
	case "xall":
		_, err = r.db.All(&Aux{})
	case "xq":
		_, err = r.db.Search(&Aux{}, "A", ">=", 0).Collect()
	case "switch":
		c := r.cfg
		c.Cache, c.Async = op.Cfg.Cache, op.Cfg.Async
		err = r.db.Create(newObj(r.cfg.Plain), schemaFor(c))
	default:
		panic("doConc: unknown op " + op.Op)
	}
	ret.c = classify(err)
	return
}

func (r *Runner) concEvent(c *cev) ev {
	op := c.op
	if c.kind == "inv" {
		e := ev{"ev": "inv", "g": c.g, "op": op.Op, "seq": c.seq}
		switch op.Op {
		case "put":
			e["slot"] = op.Slot
			e["o"] = r.project(r.concObject(op.Slot, op.O))
		case "many":
			b := []ev{}
			for _, x := range op.Batch {
				b = append(b, ev{"slot": x.Slot, "o": r.project(r.concObject(x.Slot, x.O))})
			}
			e["batch"] = b
		case "del", "get", "exist":
			e["slot"] = op.Slot
		case "delq", "q":
			e["q"] = []interface{}{op.Q[0].F, op.Q[0].Op, op.Q[0].P}
		}
		return e
	}
	e := ev{"ev": "ret", "g": c.g, "op": op.Op, "seq": c.seq, "c": c.c}
	if c.panic != "" {
		return ev{"ev": "panic", "in": op.Op, "g": c.g, "msg": c.panic}
	}
	switch op.Op {
	case "many", "count":
		e["n"] = c.n
	case "exist":
		e["b"] = c.b
	case "get":
		if c.c == "ok" && c.obj != nil {
			e["rec"] = r.project(c.obj)
		}
	case "all":
		items := [][]interface{}{}
		for _, o := range c.objs {
			items = append(items, []interface{}{r.slotOf(o.UUID()), r.project(o)})
		}
		e["items"] = items
	case "q":
		ids := []int{}
		for _, o := range c.objs {
			ids = append(ids, r.slotOf(o.UUID()))
		}
		e["ids"] = ids
	}
	return e
}
