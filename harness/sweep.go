package main

import (
	"encoding/json"
	"regexp"
	"sort"
	"strings"
	"time"

	"github.com/0xrawsec/sod"
	"github.com/google/uuid"
)

var sweepOps = []string{"=", "!=", "<", "<=", ">", ">="}

// regex patterns tried on string fields (no escapes: case constraints rewrite the pattern itself)
var sweepPatterns = []string{"^a", "b$", ".", "^$", "a|z"}

// regexMatchSet = codes of the canonical universe values the pattern matches,
// computed with Go's regexp on the universe (never on database output).  For
// case fields the pattern is canonicalised like any other search value.
func regexMatchSet(f, pat string) []int {
	out := []int{}
	switch f {
	case "Z":
		lower := curRunner != nil && custom(curRunner.cfg.Cust)["Z"].Lower
		if lower {
			pat = strings.ToLower(pat) // the pattern is canonicalised like any probe
		}
		re, err := regexp.Compile(pat)
		if err != nil {
			return out
		}
		for i, s := range uniZ {
			if lower && s != strings.ToLower(s) {
				continue // only canonical values are ever stored
			}
			if re.MatchString(s) {
				out = append(out, i)
			}
		}
	case "S", "W", "N", "PY", "R":
		u := caseLower
		if CaseKind[f] == "upper" {
			u = caseUpper
		}
		re, err := regexp.Compile(u.fn(pat))
		if err != nil {
			return out
		}
		for i, s := range u.canon {
			if re.MatchString(s) {
				out = append(out, i*CaseMul)
			}
		}
	}
	return out
}

func isStringField(f string) bool {
	switch f {
	case "Z", "S", "W", "N", "PY", "R":
		return true
	}
	return false
}

// obs performs the observation sweep and emits one "obs" event.
// dirtyProbe: an object of the collection's type in which every field holds something (no zero value anywhere, nested
// structure allocated, maps and slices of the payload populated).
func (r *Runner) dirtyProbe() sod.Object {
	v := Vals{"K": 7, "S": 2 * CaseMul, "A": 5, "U": 2, "F": 6, "N": 2 * CaseMul, "T": 4, "E": 3, "PX": 4, "PY": 2 * CaseMul, "Pn": 0,
		"Z": 2, "V": idxInt(uniV, 2), "W": 2 * CaseMul, "O": 3, "R": 3 * CaseMul, "Y": 4}
	rec := buildRec(v, 3+r.obsN%4)
	if rec.M == nil {
		rec.M = map[string][]*Sub{}
	}
	rec.M["dirty"] = []*Sub{{X: 77}}
	return fromRec(rec, r.cfg.Plain)
}

// prefilled: every second sweep hands the Assign* calls a target that already holds something (a slice reused from an
// earlier call, defaults): what comes back must be the answer and nothing else.
func prefilled[T any](r *Runner, junk T) []T {
	if r.obsN%2 == 1 {
		return []T{junk, junk}
	}
	return nil
}

func (r *Runner) obs(afterFail, light bool) {
	r.obsN++
	r.recs, r.recIdx = []Vals{}, map[string]int{}
	e := r.obsBody(afterFail, light)
	e["recs"] = r.recs
	r.emit(e)
}

// obsBody performs the sweep on r.db and returns the event body; record ids
// refer to the current r.recs table (the caller attaches it).
func (r *Runner) assignAll() (out [][]interface{}, err error) {
	out = [][]interface{}{}
	add := func(o sod.Object) { out = append(out, []interface{}{r.slotOf(o.UUID()), r.recID(o)}) }
	if r.cfg.Plain {
		t := prefilled(r, &RecPlain{})
		if err = r.db.AssignAll(r.proto(), &t); err == nil {
			for _, o := range t {
				add(o)
			}
		}
	} else {
		t := prefilled(r, &Rec{})
		if err = r.db.AssignAll(r.proto(), &t); err == nil {
			for _, o := range t {
				add(o)
			}
		}
	}
	sort.Slice(out, func(i, j int) bool { return out[i][0].(int) < out[j][0].(int) })
	return
}

func (r *Runner) obsBody(afterFail, light bool) ev {
	e := ev{"ev": "obs", "after_fail": afterFail, "async": r.cfg.Async}
	proto := r.proto()

	// All
	objs, err := r.db.All(proto)
	e["all_c"] = classify(err)
	all := [][]interface{}{}
	for _, o := range objs {
		all = append(all, []interface{}{r.slotOf(o.UUID()), r.recID(o)})
	}
	sort.Slice(all, func(i, j int) bool { return all[i][0].(int) < all[j][0].(int) })
	e["all"] = all

	// AssignAll: the same listing through the typed-slice path
	all2, err := r.assignAll()
	e["all2_c"] = classify(err)
	e["all2"] = all2

	if r.t.Aux {
		e["x"] = r.xlist()
	}

	// Count
	n, err := r.db.Count(proto)
	e["count"] = n
	e["count_c"] = classify(err)

	// Get / GetByUUID / Exist for every slot ever bound, every ghost uuid (twice)
	gets := []ev{}
	lookup := func(slot int, u string) {
		g := ev{"slot": slot}
		one := func(key string, f func() (sod.Object, error)) {
			o, err := f()
			c := classify(err)
			if err == nil && o != nil {
				g[key] = []interface{}{c, r.recID(o), r.slotOf(o.UUID())}
			} else {
				g[key] = []interface{}{c}
			}
		}
		one("g1", func() (sod.Object, error) { in := r.proto(); in.Initialize(u); return r.db.Get(in) })
		one("gu", func() (sod.Object, error) { return r.db.GetByUUID(r.proto(), u) })
		one("g2", func() (sod.Object, error) { in := r.proto(); in.Initialize(u); return r.db.Get(in) })
		// the object handed to Get only says which object is wanted: a stale copy, or one that holds other values
		// (fields the file omits, map entries), is refreshed - nothing of it shows in the answer
		one("gd", func() (sod.Object, error) { in := r.dirtyProbe(); in.Initialize(u); return r.db.Get(in) })
		one("gv", func() (sod.Object, error) { return r.db.GetByUUID(r.dirtyProbe(), u) })
		in := r.proto()
		in.Initialize(u)
		ok, err := r.db.Exist(in)
		g["ex"] = []interface{}{classify(err), ok}
		gets = append(gets, g)
	}
	slots := []int{}
	for s := range r.slots {
		slots = append(slots, s)
	}
	sort.Ints(slots)
	for _, s := range slots {
		lookup(s, r.slots[s])
	}
	for i, u := range r.ghost {
		lookup(1000+i, u)
	}
	lookup(2000, uuid.NewString())
	e["get"] = gets

	if !light {
		// AssignIndex
		aidx := ev{}
		for _, f := range r.queryFields() {
			if codes, c, ok := r.assignIndex(f); ok {
				aidx[f] = []interface{}{c, codes}
			}
		}
		e["aidx"] = aidx

		// queries
		qs := [][]interface{}{}
		for _, f := range r.queryFields() {
			if f == "Pn" {
				continue
			}
			probes := r.probesFor(f)
			for _, op := range sweepOps {
				for _, p := range probes {
					qs = append(qs, r.oneQuery([]Cmp{{F: f, Op: op, P: p}}))
				}
			}
			if isStringField(f) {
				for _, pat := range sweepPatterns {
					qs = append(qs, r.oneQuery([]Cmp{{F: f, Op: "~=", Pat: pat}}))
				}
				// a pattern that does not compile: an error, never objects (C12, C19)
				qs = append(qs, r.oneQuery([]Cmp{{F: f, Op: "~!", Pat: "a("}}))
			}
		}
		for _, q := range r.xqs {
			qs = append(qs, r.oneQuery(q))
		}
		e["q"] = qs
	} else if len(r.xqs) > 0 {
		qs := [][]interface{}{}
		for _, q := range r.xqs {
			qs = append(qs, r.oneQuery(q))
		}
		e["q"] = qs
	}
	e["control"] = classify(r.db.Control())
	e["dir"] = r.walk()
	return e
}

// recID interns the projection of an object in the per-event table "recs"
// (1-based index), so that listings carry small integers.
func (r *Runner) recID(o sod.Object) int {
	v := r.project(o)
	b, _ := json.Marshal(v)
	if id, ok := r.recIdx[string(b)]; ok {
		return id
	}
	r.recs = append(r.recs, v)
	r.recIdx[string(b)] = len(r.recs)
	return len(r.recs)
}

func (r *Runner) queryFields() []string {
	if len(r.qf) > 0 {
		return r.qf
	}
	out := []string{}
	for _, f := range FieldNames {
		if f == "Pn" || f == "pl" {
			continue
		}
		if len(r.used[f]) > 1 {
			out = append(out, f)
		}
	}
	if len(out) == 0 {
		out = []string{"K"}
	}
	return out
}

// oneQuery runs a query chain and collects it at once: [q, c, slots, len].
func (r *Runner) oneQuery(q []Cmp) []interface{} {
	s := r.runQuery(q)
	ln := s.Len()
	objs, err := s.Collect()
	c := classify(err)
	if err == nil && s.Err() != nil {
		c = "inconsistent-err"
	}
	items := [][]interface{}{}
	for _, o := range objs {
		items = append(items, []interface{}{r.slotOf(o.UUID()), r.recID(o)})
	}
	return []interface{}{qjson(q), c, items, ln}
}

func (r *Runner) assignIndex(f string) (codes []int, c string, ok bool) {
	proto := r.proto()
	path := Path[f]
	codes = []int{}
	var err error
	switch f {
	case "K":
		t := prefilled(r, int64(77))
		if err = r.db.AssignIndex(proto, path, &t); err == nil {
			for _, v := range t {
				codes = append(codes, idxI64(uniK, v))
			}
		}
	case "A", "PX", "O":
		t := prefilled(r, 77)
		if err = r.db.AssignIndex(proto, path, &t); err == nil {
			for _, v := range t {
				switch f {
				case "A":
					codes = append(codes, idxInt(uniA, v))
				case "O":
					codes = append(codes, idxInt(uniO, v))
				default:
					codes = append(codes, idxInt(uniX, v))
				}
			}
		}
	case "U":
		t := prefilled(r, uint64(77))
		if err = r.db.AssignIndex(proto, path, &t); err == nil {
			for _, v := range t {
				codes = append(codes, idxU64(uniU, v))
			}
		}
	case "F":
		t := prefilled(r, 77.5)
		if err = r.db.AssignIndex(proto, path, &t); err == nil {
			for _, v := range t {
				codes = append(codes, idxF64(uniF, v))
			}
		}
	case "Y":
		t := prefilled(r, float32(77.5))
		if err = r.db.AssignIndex(proto, path, &t); err == nil {
			for _, v := range t {
				codes = append(codes, idxF32(uniY, v))
			}
		}
	case "E":
		t := prefilled(r, int32(77))
		if err = r.db.AssignIndex(proto, path, &t); err == nil {
			for _, v := range t {
				codes = append(codes, idxI32(uniE, v))
			}
		}
	case "T":
		t := prefilled(r, time.Unix(77, 0))
		if err = r.db.AssignIndex(proto, path, &t); err == nil {
			for _, v := range t {
				codes = append(codes, idxT(uniT, v))
			}
		}
	case "S", "N", "Z":
		t := prefilled(r, "junk")
		if err = r.db.AssignIndex(proto, path, &t); err == nil {
			for _, v := range t {
				switch f {
				case "S":
					codes = append(codes, caseLower.encode(v))
				case "N":
					codes = append(codes, caseUpper.encode(v))
				default:
					codes = append(codes, idxS(uniZ, v))
				}
			}
		}
	default:
		return nil, "", false
	}
	return codes, classify(err), true
}
