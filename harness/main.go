// sodh is the verification harness for 0xrawsec/sod.  It drives the real
// package (a rewritten scratch copy of /repo's working tree) through the public
// API only, and records what happened as ndjson traces; it contains no model
// of sod and decides nothing: the verdict on every trace is TLC's.
package main

import (
	"bufio"
	"encoding/json"
	"flag"
	"fmt"
	"os"
	"runtime"
	"time"
)

func main() {
	if len(os.Args) < 2 {
		fmt.Fprintln(os.Stderr, "usage: sodh run|universe ...")
		os.Exit(2)
	}
	switch os.Args[1] {
	case "run":
		cmdRun(os.Args[2:])
	case "universe":
		cmdUniverse()
	default:
		if f, ok := extraCmds[os.Args[1]]; ok {
			f(os.Args[2:])
			return
		}
		fmt.Fprintln(os.Stderr, "unknown command", os.Args[1])
		os.Exit(2)
	}
}

var extraCmds = map[string]func([]string){}

func cmdUniverse() {
	sizes := map[string]int{}
	for _, f := range FieldNames {
		sizes[f] = UniSize(f)
	}
	variants := map[string][]int{}
	for f, k := range CaseKind {
		u := caseLower
		if k == "upper" {
			u = caseUpper
		}
		v := make([]int, len(u.variants))
		for i := range u.variants {
			v[i] = len(u.variants[i])
		}
		variants[f] = v
	}
	json.NewEncoder(os.Stdout).Encode(map[string]interface{}{"sizes": sizes, "variants": variants, "casemul": CaseMul,
		"payloads": NPayloads, "tr": map[string]interface{}{"V": trVCodes()[0], "W": []int{caseLower.encode(trWFrom), caseLower.encode(trWTo)}},
		"inv":   map[string]interface{}{"V": idxInt(uniV, invV), "W": caseLower.encode(invW)},
		"zero":  map[string]int{"K": zeroCode("K"), "A": zeroCode("A"), "U": 0, "F": zeroCode("F"), "E": zeroCode("E"), "PX": zeroCode("PX"), "V": zeroCode("V"), "S": zeroCode("S"), "W": zeroCode("W"), "N": zeroCode("N"), "PY": zeroCode("PY"), "Z": 0, "T": 3},
		"k2p53": idxI64(uniK, 1<<53)})
}

func cmdRun(args []string) {
	fs := flag.NewFlagSet("run", flag.ExitOnError)
	tests := fs.String("tests", "", "ndjson file of tests")
	out := fs.String("out", "", "ndjson trace output")
	start := fs.Int("start", 0, "index of the first test to run")
	count := fs.Int("count", -1, "number of tests to run")
	work := fs.String("work", "/dev/shm", "directory for database roots")
	timeout := fs.Duration("timeout", 60*time.Second, "per-test watchdog")
	locks := fs.String("locktrace", "", "record the lock operations of every call into this ndjson file")
	keep := fs.String("keep", "", "keep every database directory, its identifiers and its trace under this directory (golden corpus)")
	fs.Parse(args)
	KeepDir = *keep
	if *locks != "" {
		startLockTrace(*locks)
		defer stopLockTrace()
	}

	in, err := os.Open(*tests)
	if err != nil {
		fmt.Fprintln(os.Stderr, err)
		os.Exit(2)
	}
	defer in.Close()
	of, err := os.OpenFile(*out, os.O_CREATE|os.O_WRONLY|os.O_APPEND, 0o644)
	if err != nil {
		fmt.Fprintln(os.Stderr, err)
		os.Exit(2)
	}
	w := bufio.NewWriterSize(of, 1<<20)
	enc := json.NewEncoder(w)
	enc.SetEscapeHTML(false)
	sc := bufio.NewScanner(in)
	sc.Buffer(make([]byte, 1<<20), 1<<28)
	idx := -1
	done := 0
	for sc.Scan() {
		idx++
		if idx < *start {
			continue
		}
		if *count >= 0 && done >= *count {
			break
		}
		var t Test
		if err := json.Unmarshal(sc.Bytes(), &t); err != nil {
			fmt.Fprintf(os.Stderr, "bad test line %d: %v\n", idx, err)
			os.Exit(2)
		}
		finished := make(chan struct{})
		go func() {
			select {
			case <-finished:
			case <-time.After(*timeout):
				buf := make([]byte, 1<<20)
				n := runtime.Stack(buf, true)
				w.Flush()
				enc2 := json.NewEncoder(of)
				enc2.Encode(map[string]interface{}{"ev": "hang", "id": t.ID, "stack": string(buf[:n])})
				enc2.Encode(map[string]interface{}{"ev": "end"})
				fmt.Fprintf(os.Stderr, "HANG test index %d id %s\n", idx, t.ID)
				os.Exit(3)
			}
		}()
		RunTest(&t, enc, *work)
		close(finished)
		w.Flush()
		done++
	}
	w.Flush()
	of.Close()
}
