module verifh

go 1.18

require (
	github.com/0xrawsec/sod v0.0.0
	github.com/google/uuid v1.3.0
)

replace github.com/0xrawsec/sod => ../sod
