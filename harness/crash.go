package main

import (
	"bytes"
	"compress/gzip"
	"encoding/json"
	"fmt"
	"math"
	"os"
	"path/filepath"
	"runtime/debug"
	"sort"
	"strings"

	"github.com/0xrawsec/sod"
	"github.com/0xrawsec/sod/verifshim/vfs"
	"github.com/google/uuid"
)

// ---------------------------------------------------------------- directory snapshots

type dirSnap struct {
	files map[string][]byte // relative path -> content
	dirs  []string          // relative paths
}

func snapshotDir(root string) *dirSnap {
	s := &dirSnap{files: map[string][]byte{}}
	filepath.Walk(root, func(p string, info os.FileInfo, err error) error {
		if err != nil || p == root {
			return nil
		}
		rel, _ := filepath.Rel(root, p)
		if info.IsDir() {
			s.dirs = append(s.dirs, rel)
		} else if info.Mode().IsRegular() {
			b, _ := os.ReadFile(p)
			s.files[rel] = b
		}
		return nil
	})
	return s
}

func (s *dirSnap) restore(root string) {
	os.MkdirAll(root, 0o700)
	for _, d := range s.dirs {
		os.MkdirAll(filepath.Join(root, d), 0o700)
	}
	for f, b := range s.files {
		os.MkdirAll(filepath.Dir(filepath.Join(root, f)), 0o700)
		os.WriteFile(filepath.Join(root, f), b, 0o700)
	}
}

// ---------------------------------------------------------------- crash steps

type fsStep struct {
	kind  string // mkdir | trunc | write | remove | removeall | rename
	path  string // relative to the database root
	path2 string
	data  []byte
	desc  string
}

// expandOps turns the recorded file-system calls of one API call into the
// sequence of directory states a process crash can leave behind: completed
// system calls persist in order; a write is torn into truncate / half / full.
func expandOps(root string, ops []*vfs.Op) []fsStep {
	rel := func(p string) string {
		r, err := filepath.Rel(root, p)
		if err != nil {
			return p
		}
		return r
	}
	out := []fsStep{}
	for _, op := range ops {
		if !op.Mut || (op.Err && !op.Fault) {
			continue
		}
		switch op.Kind {
		case "mkdirall", "mkdir":
			out = append(out, fsStep{kind: "mkdir", path: rel(op.Path), desc: "mkdir " + filepath.Base(op.Path)})
		case "openw", "create", "createtemp", "writefile":
			base := filepath.Base(op.Path)
			if op.Trunc {
				out = append(out, fsStep{kind: "trunc", path: rel(op.Path), desc: "truncate " + base})
			}
			if len(op.Data) > 1 {
				out = append(out, fsStep{kind: "write", path: rel(op.Path), data: op.Data[:len(op.Data)/2], desc: "half-written " + base})
			}
			out = append(out, fsStep{kind: "write", path: rel(op.Path), data: op.Data, desc: "written " + base})
		case "remove":
			out = append(out, fsStep{kind: "remove", path: rel(op.Path), desc: "remove " + filepath.Base(op.Path)})
		case "removeall":
			out = append(out, fsStep{kind: "removeall", path: rel(op.Path), desc: "removeall"})
		case "rename":
			out = append(out, fsStep{kind: "rename", path: rel(op.Path), path2: rel(op.Path2), desc: "rename " + filepath.Base(op.Path) + " -> " + filepath.Base(op.Path2)})
		case "truncate":
			out = append(out, fsStep{kind: "trunc", path: rel(op.Path), desc: "truncate " + filepath.Base(op.Path)})
		}
	}
	return out
}

func applySteps(root string, steps []fsStep) {
	for _, s := range steps {
		p := filepath.Join(root, s.path)
		switch s.kind {
		case "mkdir":
			os.MkdirAll(p, 0o700)
		case "trunc":
			os.MkdirAll(filepath.Dir(p), 0o700)
			os.WriteFile(p, nil, 0o700)
		case "write":
			os.MkdirAll(filepath.Dir(p), 0o700)
			os.WriteFile(p, s.data, 0o700)
		case "remove":
			os.Remove(p)
		case "removeall":
			os.RemoveAll(p)
		case "rename":
			os.Rename(p, filepath.Join(root, s.path2))
		}
	}
}

// ---------------------------------------------------------------- recovery procedure

func (r *Runner) guardClass(f func() error) (c string) {
	defer func() {
		if p := recover(); p != nil {
			c = "panic"
			r.lastMsg = fmt.Sprint(p) + "\n" + string(debug.Stack())
		}
	}()
	return classify(f())
}

func (r *Runner) guardObs() (e ev) {
	defer func() {
		if p := recover(); p != nil {
			e = ev{"ev": "obs", "panic": fmt.Sprint(p), "all_c": "panic", "count_c": "panic", "all": []int{}, "count": 0, "get": []int{}, "control": "panic",
				"after_fail": false, "async": r.cfg.Async, "dir": r.walk()}
			r.lastMsg = fmt.Sprint(p) + "\n" + string(debug.Stack())
		}
	}()
	return r.obsBody(false, false)
}

// recovery opens root with a fresh handle and runs the documented recovery
// procedure: first access (lazy load) - Create with the original settings if
// the schema file is gone - Control / sweep - Repair - Control / sweep.
// The observations are returned as fields of one event; record ids refer to
// the current r.recs table.
func (r *Runner) recovery(root string) ev { return r.recoveryVia(root, "schema") }

// recoveryVia: first is the call that makes the first load of the collection: "schema" (any read-only access)
// or "create" (the usual start-up sequence Open + Create).
func (r *Runner) recoveryVia(root string, first string) ev {
	saveDB, saveRoot := r.db, r.root
	defer func() { r.db, r.root = saveDB, saveRoot }()
	r.root = root
	r.db = sod.Open(root)
	out := ev{}
	r.lastMsg = ""
	if first == "create" {
		out["load"] = r.guardClass(func() error { return r.db.Create(r.proto(), r.schema()) })
	} else {
		out["load"] = r.guardClass(func() error { _, err := r.db.Schema(r.proto()); return err })
		if out["load"] == "notfound" {
			out["create"] = r.guardClass(func() error { return r.db.Create(r.proto(), r.schema()) })
		}
	}
	out["first"] = first
	out["obs1"] = r.guardObs()
	// Repair restores agreement "without modifying or deleting any object file": its file-system calls are recorded and
	// the mutating ones aimed at an object file counted (contents alone would not show a file rewritten as it was)
	wasRec := vfs.Recording()
	vfs.Record(true)
	mark := vfs.Count()
	out["repair"] = r.guardClass(func() error { return r.db.Repair(r.proto()) })
	if !wasRec {
		vfs.Record(false)
		out["repair_mut"] = objectFileMutations(vfs.Drain(), mark)
	}
	out["obs2"] = r.guardObs()
	// the repaired handle must be usable: one more write-free commit, then a brand new handle
	out["close"] = r.guardClass(func() error { return r.db.Close() })
	r.db = sod.Open(root)
	out["load3"] = r.guardClass(func() error { _, err := r.db.Schema(r.proto()); return err })
	out["obs3"] = r.guardObs()
	r.guardClass(func() error { return r.db.Close() })
	if r.lastMsg != "" {
		out["msg"] = r.lastMsg
	}
	return out
}

// objectFileMutations counts the successful mutating calls (after call number `mark`) whose target is an object file:
// anything in a collection directory that is neither the schema nor a temporary (dot) file nor a directory operation.
func objectFileMutations(ops []*vfs.Op, mark int) int {
	n := 0
	for _, o := range ops {
		if o.Seq <= mark || !o.Mut || o.Err {
			continue
		}
		switch o.Kind {
		case "mkdir", "mkdirall", "removeall":
			continue
		}
		tgt := o.Path
		if o.Kind == "rename" || o.Kind == "link" || o.Kind == "symlink" {
			tgt = o.Path2
		}
		b := filepath.Base(tgt)
		if b == "schema.json" || strings.HasPrefix(b, ".") {
			continue
		}
		n++
	}
	return n
}

// crashSweep materialises every crash state of the recorded call and records
// the recovery of each as one "crash" event.
func (r *Runner) crashSweep(opIndex int, pre *dirSnap, ops []*vfs.Op) {
	steps := expandOps(r.root, ops)
	for k := 0; k <= len(steps); k++ {
		croot, err := os.MkdirTemp(filepath.Dir(r.root), "crash")
		if err != nil {
			panic(err)
		}
		pre.restore(croot)
		applySteps(croot, steps[:k])
		desc := "before the call"
		if k > 0 {
			desc = steps[k-1].desc
		}
		r.recs, r.recIdx = []Vals{}, map[string]int{}
		e := r.recovery(croot)
		e["ev"], e["of"], e["k"], e["n"], e["step"] = "crash", opIndex, k, len(steps), desc
		e["recs"] = r.recs
		r.emit(e)
		os.RemoveAll(croot)
	}
}

// ---------------------------------------------------------------- damage (C11)

type Damage struct {
	Rm       []int  `json:"rm,omitempty"`       // remove the object file of these slots
	Add      []Vals `json:"add,omitempty"`      // add a valid object file with a fresh uuid
	Unindex  []int  `json:"unindex,omitempty"`  // remove these slots' entries from the serialised index
	Live     bool   `json:"live,omitempty"`     // the handle that finds the damage is repaired and kept (no fresh handle)
	RmSchema bool   `json:"rmschema,omitempty"` // remove schema.json
	First    string `json:"first,omitempty"`    // the call that makes the first load afterwards: "schema" (default) | "create"
}

func (r *Runner) collDir() string { return filepath.Join(r.root, expectedDir(r.cfg.Plain, r.cfg.Lc)) }

func (r *Runner) fileSuffix() string {
	s := extOf(r.cfg)
	if r.cfg.Gz {
		s += ".gz"
	}
	return s
}

func (r *Runner) writeObjectFile(u string, rec *Rec) error {
	b, err := json.Marshal(fromRec(rec, r.cfg.Plain))
	if err != nil {
		return err
	}
	if r.cfg.Gz {
		var buf bytes.Buffer
		w := gzip.NewWriter(&buf)
		w.Write(b)
		w.Close()
		b = buf.Bytes()
	}
	return os.WriteFile(filepath.Join(r.collDir(), u+r.fileSuffix()), b, 0o700)
}

// unindexInSchema removes every trace of the given uuids from the serialised index
// by a structural edit of schema.json (no sod code involved).
func unindexInSchema(path string, uuids map[string]bool) error {
	b, err := os.ReadFile(path)
	if err != nil {
		return err
	}
	var doc map[string]interface{}
	dec := json.NewDecoder(bytes.NewReader(b))
	dec.UseNumber()
	if err := dec.Decode(&doc); err != nil {
		return err
	}
	idx, _ := doc["index"].(map[string]interface{})
	if idx == nil {
		return fmt.Errorf("no index in schema")
	}
	oids := map[string]bool{}
	if m, ok := idx["object-ids"].(map[string]interface{}); ok {
		for oid, u := range m {
			if us, _ := u.(string); uuids[us] {
				oids[oid] = true
				delete(m, oid)
			}
		}
	}
	if fields, ok := idx["fields"].(map[string]interface{}); ok {
		for _, fv := range fields {
			f, _ := fv.(map[string]interface{})
			if f == nil {
				continue
			}
			list, _ := f["index"].([]interface{})
			keep := []interface{}{}
			for _, ent := range list {
				t, _ := ent.([]interface{})
				if len(t) == 2 && oids[fmt.Sprint(t[1])] {
					continue
				}
				keep = append(keep, ent)
			}
			f["index"] = keep
		}
	}
	nb, err := json.Marshal(doc)
	if err != nil {
		return err
	}
	return os.WriteFile(path, nb, 0o700)
}

// damage closes the handle, damages the directory, and records the recovery.
func (r *Runner) damage(op *Op) {
	d := op.Damage
	if d == nil {
		d = &Damage{}
	}
	cc := r.guardClass(func() error { return r.db.Close() })
	e := ev{"ev": "damage", "close": cc}
	rm, unidx, added := []int{}, []int{}, []interface{}{}
	us := map[string]bool{}
	for _, s := range d.Unindex {
		if u, ok := r.slots[s]; ok {
			us[u] = true
			unidx = append(unidx, s)
		}
	}
	if len(us) > 0 && !d.RmSchema {
		if err := unindexInSchema(filepath.Join(r.collDir(), "schema.json"), us); err != nil {
			e["unindex_err"] = err.Error()
		}
	}
	for _, s := range d.Rm {
		if u, ok := r.slots[s]; ok {
			if os.Remove(filepath.Join(r.collDir(), u+r.fileSuffix())) == nil {
				rm = append(rm, s)
			}
		}
	}
	r.recs, r.recIdx = []Vals{}, map[string]int{}
	for i, v := range d.Add {
		slot := 500 + len(r.rev) + i
		cv := r.complete(slot, v)
		rec := buildRec(cv, cv["pl"])
		u := uuid.NewString()
		rec.Initialize(u)
		if err := r.writeObjectFile(u, rec); err == nil {
			r.slots[slot] = u
			r.rev[u] = slot
			r.seen[u] = true
			cv["pl"] = payloadID(rec)
			r.noteUsed(cv)
			added = append(added, []interface{}{slot, cv})
		}
	}
	if d.RmSchema {
		os.Remove(filepath.Join(r.collDir(), "schema.json"))
	}
	sort.Ints(rm)
	sort.Ints(unidx)
	e["rm"], e["unindex"], e["add"], e["rmschema"] = rm, unidx, added, d.RmSchema
	first := d.First
	if first == "" {
		first = "schema"
	}
	if d.Live {
		// the handle that FOUND the damage is repaired and stays in use (no Create, no second Open): whatever a handle
		// sets up when a collection is loaded - the background flusher of an asynchronous collection among it - must be
		// in place on that handle too
		if r.t.VClock {
			r.retireFlushers()
		}
		sod.LowercaseNames = r.cfg.Lc
		r.db = sod.Open(r.root)
		r.hands, r.handQ = map[int]*sod.Search{}, map[int][]Cmp{}
		r.handLim, r.handRev = map[int]int{}, map[int]bool{}
		e["live"] = true
		e["first"] = "schema"
		e["load"] = r.guardClass(func() error { _, err := r.db.Schema(r.proto()); return err })
		e["obs1"] = r.guardObs()
		vfs.Record(true)
		mark := vfs.Count()
		e["repair"] = r.guardClass(func() error { return r.db.Repair(r.proto()) })
		vfs.Record(false)
		e["repair_mut"] = objectFileMutations(vfs.Drain(), mark)
		e["obs2"] = r.guardObs()
		e["recs"] = r.recs
		r.emit(e)
		r.primeFlusher()
		return
	}
	rec := r.recoveryVia(r.root, first)
	for k, v := range rec {
		e[k] = v
	}
	e["recs"] = r.recs
	r.emit(e)
	// carry on with a fresh handle on the repaired directory
	r.open(true)
}

// ---------------------------------------------------------------- file corruption (C19)

type Corrupt struct {
	Target string `json:"target"` // "schema" | "object" | "stray"
	Slot   int    `json:"slot,omitempty"`
	Kind   string `json:"kind"` // trunc | flip | set | node | name
	At     int    `json:"at,omitempty"`
	Val    string `json:"val,omitempty"`
}

func mutateBytes(b []byte, c *Corrupt) []byte {
	switch c.Kind {
	case "trunc":
		n := c.At
		if n > len(b) {
			n = len(b)
		}
		return append([]byte{}, b[:n]...)
	case "flip":
		out := append([]byte{}, b...)
		if len(out) > 0 {
			i := (c.At / 8) % len(out)
			out[i] ^= 1 << uint(c.At%8)
		}
		return out
	case "set":
		return []byte(c.Val)
	case "idxoid", "idxval", "idxdrop", "idxdup", "idxswap", "oiddrop", "oiddup":
		// structure-aware damage of the serialised index: At = field number * 8 + entry number
		var doc map[string]interface{}
		dec := json.NewDecoder(bytes.NewReader(b))
		dec.UseNumber()
		if dec.Decode(&doc) != nil {
			return b
		}
		idx, _ := doc["index"].(map[string]interface{})
		if idx == nil {
			return b
		}
		fields, _ := idx["fields"].(map[string]interface{})
		names := []string{}
		for n := range fields {
			names = append(names, n)
		}
		sort.Strings(names)
		oids, _ := idx["object-ids"].(map[string]interface{})
		if len(names) == 0 {
			return b
		}
		f, _ := fields[names[(c.At/8)%len(names)]].(map[string]interface{})
		list, _ := f["index"].([]interface{})
		switch c.Kind {
		case "oiddrop", "oiddup":
			keys := []string{}
			for k := range oids {
				keys = append(keys, k)
			}
			sort.Strings(keys)
			if len(keys) == 0 {
				return b
			}
			k := keys[c.At%len(keys)]
			if c.Kind == "oiddrop" {
				delete(oids, k)
			} else {
				oids["77"] = oids[k]
			}
		default:
			if len(list) == 0 {
				return b
			}
			j := c.At % 8 % len(list)
			o := (j + 1) % len(list)
			ej, _ := list[j].([]interface{})
			eo, _ := list[o].([]interface{})
			if len(ej) != 2 || len(eo) != 2 {
				return b
			}
			switch c.Kind {
			case "idxoid":
				list[j] = []interface{}{ej[0], eo[1]}
			case "idxval":
				list[j] = []interface{}{eo[0], ej[1]}
			case "idxswap":
				list[j], list[o] = list[o], list[j]
			case "idxdrop":
				list = append(list[:j:j], list[j+1:]...)
			case "idxdup":
				list = append(list, list[j])
			}
			f["index"] = list
		}
		nb, err := json.Marshal(doc)
		if err != nil {
			return b
		}
		return nb
	case "node":
		// replace the At-th JSON node (pre-order) by Val
		var doc interface{}
		dec := json.NewDecoder(bytes.NewReader(b))
		dec.UseNumber()
		if dec.Decode(&doc) != nil {
			return b
		}
		var repl interface{}
		json.Unmarshal([]byte(c.Val), &repl)
		n := 0
		var walk func(x interface{}) interface{}
		walk = func(x interface{}) interface{} {
			if n == c.At {
				n++
				return repl
			}
			n++
			switch t := x.(type) {
			case map[string]interface{}:
				keys := make([]string, 0, len(t))
				for k := range t {
					keys = append(keys, k)
				}
				sort.Strings(keys)
				for _, k := range keys {
					t[k] = walk(t[k])
				}
			case []interface{}:
				for i := range t {
					t[i] = walk(t[i])
				}
			}
			return x
		}
		doc = walk(doc)
		nb, err := json.Marshal(doc)
		if err != nil {
			return b
		}
		return nb
	}
	return b
}

// corrupt closes the handle, applies one mutation to a file of the collection
// directory (or adds a stray entry), and runs a battery of API calls on a fresh
// handle; every call is guarded, a panic is an observation.
func (r *Runner) corrupt(op *Op) {
	c := op.Corrupt
	r.guardClass(func() error { return r.db.Close() })
	e := ev{"ev": "corrupt", "target": c.Target, "kind": c.Kind, "at": c.At}
	dir := r.collDir()
	switch c.Target {
	case "schema", "object":
		p := filepath.Join(dir, "schema.json")
		gz := false
		if c.Target == "object" {
			p = filepath.Join(dir, r.slots[c.Slot]+r.fileSuffix())
			gz = r.cfg.Gz
		}
		b, err := os.ReadFile(p)
		if err != nil {
			e["skipped"] = err.Error()
			break
		}
		if gz && c.Kind == "node" {
			// structural mutations apply to the plain JSON
			if g, err := gzip.NewReader(bytes.NewReader(b)); err == nil {
				var buf bytes.Buffer
				buf.ReadFrom(g)
				nb := mutateBytes(buf.Bytes(), c)
				var out bytes.Buffer
				w := gzip.NewWriter(&out)
				w.Write(nb)
				w.Close()
				os.WriteFile(p, out.Bytes(), 0o700)
				break
			}
		}
		nb := mutateBytes(b, c)
		e["size"], e["newsize"] = len(b), len(nb)
		os.WriteFile(p, nb, 0o700)
	case "stray":
		name := c.Val
		switch c.Kind {
		case "dir":
			os.MkdirAll(filepath.Join(dir, name), 0o700)
		default:
			os.WriteFile(filepath.Join(dir, name), []byte("stray"), 0o700)
		}
	}
	// the battery
	res := [][]interface{}{}
	call := func(name string, f func() error) {
		cls := r.guardClass(f)
		msg := ""
		if cls == "panic" {
			msg = strings.SplitN(r.lastMsg, "\n", 2)[0]
		}
		res = append(res, []interface{}{name, cls, msg})
	}
	r.db = sod.Open(r.root)
	proto := r.proto
	call("schema", func() error { _, err := r.db.Schema(proto()); return err })
	call("create", func() error { return r.db.Create(proto(), r.schema()) })
	call("control", func() error { return r.db.Control() })
	call("count", func() error { _, err := r.db.Count(proto()); return err })
	call("all", func() error { _, err := r.db.All(proto()); return err })
	for s, u := range r.slots {
		if s <= 2 {
			uu := u
			call("get", func() error { _, err := r.db.GetByUUID(proto(), uu); return err })
		}
	}
	// a full scan (search on the unindexed field V, matching everything) either fails or has looked at every object:
	// the objects it returns are as many as the index counts ("never objects for a query that could not be evaluated")
	scan := ev{}
	r.guardClass(func() error {
		n, err := r.db.Count(proto())
		scan["count_c"], scan["count"] = classify(err), n
		objs, err := r.db.Search(proto(), "V", ">=", -1<<40).Collect()
		scan["c"], scan["n"] = classify(err), len(objs)
		objs, err = r.db.Search(proto(), "K", ">=", int64(math.MinInt64)).And("V", ">=", -1<<40).Collect()
		scan["and_c"], scan["and_n"] = classify(err), len(objs)
		return nil
	})
	e["scan"] = scan
	call("search", func() error { _, err := r.db.Search(proto(), "K", ">=", int64(0)).Collect(); return err })
	call("searchall", func() error { _, err := r.db.Search(proto(), "V", ">=", 0).Collect(); return err })
	call("assignindex", func() error { var t []int64; return r.db.AssignIndex(proto(), "K", &t) })
	call("put", func() error { o, _ := r.object(900, Vals{"K": 20}); return r.db.InsertOrUpdate(o) })
	call("many", func() error { o, _ := r.object(901, Vals{"K": 19}); _, err := r.db.InsertOrUpdateMany(o); return err })
	call("delete", func() error { return r.db.Delete(r.ident(1)) })
	call("repair", func() error { return r.db.Repair(proto()) })
	call("control2", func() error { return r.db.Control() })
	call("all2", func() error { _, err := r.db.All(proto()); return err })
	call("deleteall", func() error { return r.db.DeleteAll(proto()) })
	call("close", func() error { return r.db.Close() })
	// and a brand new handle once more
	r.db = sod.Open(r.root)
	call("schema3", func() error { _, err := r.db.Schema(proto()); return err })
	call("all3", func() error { _, err := r.db.All(proto()); return err })
	call("close3", func() error { return r.db.Close() })
	e["res"] = res
	r.emit(e)
}
