package main

import (
	"crypto/sha256"
	"encoding/json"
	"errors"
	"time"

	"github.com/0xrawsec/sod"
)

// Emb is embedded in Rec (field path Emb.E).
type Emb struct {
	E int32 `sod:"index"`
}

// Sub sits behind a pointer in Rec (field paths P.X, P.Y) and inside the payload.
type Sub struct {
	X int    `sod:"index"`
	Y string `sod:"upper"`
}

// Grp is held BY VALUE in slices and maps of the payload, with containers of its own.
type Grp struct {
	Tags  []string
	Attrs map[string]int
	Cnt   *int
	Inner []Sub
}

// Level is a named string type (payload field Lv).
type Level string

// Rec is the main collection type of the drivers.
type Rec struct {
	sod.Item
	K int64     `sod:"unique"`
	S string    `sod:"unique,lower"`
	A int       `sod:"index"`
	U uint64    `sod:"index"`
	F float64   `sod:"index"`
	N string    `sod:"index,upper"`
	T time.Time `sod:"index"`
	Emb
	P *Sub
	Z string `sod:"index"`
	V int
	W string `sod:"lower"`
	// O is omitted from the JSON of an object when zero: a decoder that reuses its target sees the previous object's value
	O int `json:",omitempty" sod:"index"`
	// Y is a single-precision float: its index key is the exact double of the value (0.1 -> 0.10000000149011612), which is
	// what directories written by earlier versions hold in schema.json
	Y float32 `sod:"index"`
	// R is an optional string: struct tags on pointer fields are not read by the library, a case constraint can only be
	// put on it by a custom schema (custom schema 7); nil everywhere else
	R *string
	// payload (opaque to the specification)
	D  time.Duration // named basic types: their descriptor in schema.json is the type's name
	Lv Level
	L  []int
	M  map[string][]*Sub
	Q  *int
	I  interface{}
	B  []byte
	G  []Grp
	H  map[string]Grp
	J  [][]int
}

// RecPlain has the same shape with the top-level non-unique indexes removed.
type RecPlain struct {
	sod.Item
	K int64  `sod:"unique"`
	S string `sod:"unique,lower"`
	A int
	U uint64
	F float64
	N string `sod:"upper"`
	T time.Time
	Emb
	P  *Sub
	Z  string
	V  int
	W  string `sod:"lower"`
	O  int    `json:",omitempty"`
	Y  float32
	R  *string
	D  time.Duration
	Lv Level
	L  []int
	M  map[string][]*Sub
	Q  *int
	I  interface{}
	B  []byte
	G  []Grp
	H  map[string]Grp
	J  [][]int
}

// Other is a second collection type (wrong-type batches, multi-collection Close).
type Other struct {
	sod.Item
	K int64 `sod:"unique"`
	V int
}

// hook log -----------------------------------------------------------------

type hookEv struct {
	H   string // "T" | "V"
	Ptr *Rec
	V   int // code of V seen
	W   int // code of W seen
}

var hookLog []hookEv

var errInvalidRule = errors.New("rejected by the driver's validity rule")

// The driver's own Transform: V 6 -> 5 (5 is invalid), V 3 -> 2 and V 2 -> 1 (NOT idempotent: applying it
// twice is visible), W "q" -> "R".
const (
	trWFrom, trWTo = "q", "R"
	invV           = 5
	invW           = "x"
)

var trV = [][2]int{{6, 5}, {3, 2}, {2, 1}}

func (r *Rec) Transform() {
	hookLog = append(hookLog, hookEv{H: "T", Ptr: r})
	for _, t := range trV {
		if r.V == t[0] {
			r.V = t[1]
			break
		}
	}
	if r.W == trWFrom {
		r.W = trWTo
	}
}

func (r *Rec) Validate() error {
	hookLog = append(hookLog, hookEv{H: "V", Ptr: r, V: idxInt(uniV, r.V), W: caseLower.encode(r.W)})
	if r.V == invV || r.W == invW {
		return errInvalidRule
	}
	return nil
}

func (r *RecPlain) Transform()      { (*Rec)(r).Transform() }
func (r *RecPlain) Validate() error { return (*Rec)(r).Validate() }

// asRec gives the *Rec view of either collection type (same memory).
func asRec(o sod.Object) *Rec {
	switch t := o.(type) {
	case *Rec:
		return t
	case *RecPlain:
		return (*Rec)(t)
	}
	return nil
}

func newObj(plain bool) sod.Object {
	if plain {
		return &RecPlain{}
	}
	return &Rec{}
}

func fromRec(r *Rec, plain bool) sod.Object {
	if plain {
		return (*RecPlain)(r)
	}
	return r
}

// build a Rec from codes --------------------------------------------------

func buildRec(v Vals, pl int) *Rec {
	r := &Rec{}
	r.K = uniK[v["K"]]
	r.S = caseLower.value(v["S"])
	r.A = uniA[v["A"]]
	r.U = uniU[v["U"]]
	r.F = uniF[v["F"]]
	r.N = caseUpper.value(v["N"])
	r.T = uniT[v["T"]]
	r.E = uniE[v["E"]]
	if v["Pn"] == 0 {
		r.P = &Sub{X: uniX[v["PX"]], Y: caseUpper.value(v["PY"])}
	}
	r.Z = uniZ[v["Z"]]
	r.V = uniV[v["V"]]
	r.W = caseLower.value(v["W"])
	r.O = uniO[v["O"]]
	r.Y = uniY[v["Y"]]
	if v["R"] != zeroCode("R") {
		x := caseUpper.value(v["R"])
		r.R = &x
	}
	setPayload(r, pl)
	return r
}

// encodeRec projects an object to codes; -1 marks a value outside the universe.
func encodeRec(r *Rec) Vals {
	v := Vals{}
	v["K"] = idxI64(uniK, r.K)
	v["S"] = caseLower.encode(r.S)
	v["A"] = idxInt(uniA, r.A)
	v["U"] = idxU64(uniU, r.U)
	v["F"] = idxF64(uniF, r.F)
	v["N"] = caseUpper.encode(r.N)
	v["T"] = idxT(uniT, r.T)
	v["E"] = idxI32(uniE, r.E)
	if r.P == nil {
		v["Pn"] = 1
		v["PX"] = zeroCode("PX")
		v["PY"] = zeroCode("PY")
	} else {
		v["Pn"] = 0
		v["PX"] = idxInt(uniX, r.P.X)
		v["PY"] = caseUpper.encode(r.P.Y)
	}
	v["Z"] = idxS(uniZ, r.Z)
	v["V"] = idxInt(uniV, r.V)
	v["W"] = caseLower.encode(r.W)
	v["O"] = idxInt(uniO, r.O)
	v["Y"] = idxF32(uniY, r.Y)
	v["R"] = zeroCode("R")
	if r.R != nil {
		v["R"] = caseUpper.encode(*r.R)
	}
	return v
}

// payloads ----------------------------------------------------------------

// NPayloads is the number of payload shapes setPayload knows.
const NPayloads = 20

func ip(i int) *int { return &i }

func setPayload(r *Rec, n int) {
	r.L, r.M, r.Q, r.I, r.B = nil, nil, nil, nil, nil
	r.G, r.H, r.J = nil, nil, nil
	r.D, r.Lv = time.Duration(n%3)*time.Second, Level([]string{"", "low", "high"}[n%3])
	switch n % NPayloads {
	case 0:
	case 1:
		r.L = []int{}
		r.M = map[string][]*Sub{}
		r.B = []byte{}
	case 2:
		r.L = []int{1, 2, 3}
	case 3:
		r.M = map[string][]*Sub{"a": {{X: 1, Y: "p"}, nil}, "b": nil, "c": {}}
	case 4:
		r.Q = ip(42)
	case 5:
		r.I = "text"
	case 6:
		r.I = map[string]interface{}{"k": []interface{}{1.0, "two", nil, true}}
	case 7:
		r.I = []interface{}{map[string]interface{}{"deep": map[string]interface{}{"er": 1.5}}}
	case 8:
		r.B = []byte{0, 1, 2, 255}
	case 9:
		r.L = make([]int, 2, 16)
		r.L[0], r.L[1] = 7, 8
		r.Q = ip(0)
	case 10:
		r.M = map[string][]*Sub{"x": {{X: 9, Y: "q"}}}
		r.L = []int{5}
		r.I = 3.25
	case 11:
		r.I = &Sub{X: 4, Y: "ptr"}
		r.Q = ip(-1)
	case 12:
		r.G = []Grp{{Tags: []string{"a", "b"}, Attrs: map[string]int{"x": 1}, Cnt: ip(3), Inner: []Sub{{X: 1, Y: "i"}}}, {}}
	case 13:
		r.H = map[string]Grp{"g": {Tags: []string{"t"}, Attrs: map[string]int{"y": 2}, Cnt: ip(9)}, "e": {}}
		r.J = [][]int{{1, 2}, nil, {}}
	case 14:
		r.G = []Grp{{Tags: []string{}, Inner: []Sub{}}}
		r.J = [][]int{{7}}
		r.I = []interface{}{[]interface{}{1.0, 2.0}, map[string]interface{}{"z": []interface{}{"q"}}}
	// free-form payloads holding the ZERO of their dynamic type: a value, not "nothing"
	case 15:
		r.I = 0.0
	case 16:
		r.I = ""
	case 17:
		r.I = false
	case 18:
		r.I = []interface{}{0.0, "", false, map[string]interface{}{}}
	case 19:
		r.I = map[string]interface{}{"z": 0.0, "e": "", "f": false, "n": nil}
	}
}

// payloadID identifies the canonical JSON of the payload fields by a number that is the same in every
// process (traces recorded by another build of the harness, e.g. the golden corpus, stay comparable):
// the first 28 bits of its SHA-256.  (P's nil-ness is a separate field, Pn.)
func payloadID(r *Rec) int {
	b, err := json.Marshal([]interface{}{r.L, r.M, r.Q, r.I, r.B, r.G, r.H, r.J, r.D, r.Lv})
	if err != nil {
		b = []byte("unmarshalable:" + err.Error())
	}
	h := sha256.Sum256(b)
	return int(h[0])<<20 | int(h[1])<<12 | int(h[2])<<4 | int(h[3])>>4
}
