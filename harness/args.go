package main

import (
	"fmt"
	"math"
	"time"

	"github.com/0xrawsec/sod"
)

// The search-argument battery (C19 / C12): every (field, operator, value kind)
// triple, well-formed or not, evaluated through the public API.  Each query is
// guarded separately: a panic is an observation.

type argCase struct {
	Field string      // sod field path
	Op    string      // operator as given
	Val   interface{} // probe
	Kind  string      // ok | unknownfield | unknownop | mistyped | badkey | badregex
	Tag   string      // printable description of the value kind
}

func fieldKind(f string) string {
	switch f {
	case "K", "A", "E", "PX", "V", "O":
		return "int"
	case "U":
		return "uint"
	case "F", "Y":
		return "float"
	case "T":
		return "time"
	}
	return "string"
}

func argBattery() []argCase {
	out := []argCase{}
	vals := []struct {
		tag  string
		kind string
		v    interface{}
	}{
		{"int", "int", int(1)}, {"int8", "int", int8(1)}, {"int16", "int", int16(1)}, {"int32", "int", int32(1)}, {"int64", "int", int64(1)},
		{"uint", "uint", uint(1)}, {"uint8", "uint", uint8(1)}, {"uint16", "uint", uint16(1)}, {"uint32", "uint", uint32(1)}, {"uint64", "uint", uint64(1)},
		{"float64", "float", float64(1.5)}, {"float32", "float", float32(0.5)},
		{"string", "string", "a"},
		{"time", "time", time.Date(2000, 1, 1, 0, 0, 0, 0, time.UTC)},
		{"nil", "bad", nil}, {"struct", "bad", struct{ X int }{1}}, {"bytes", "bad", []byte("a")}, {"bool", "bad", true},
		{"ptr", "bad", new(int)}, {"nilptr", "bad", (*int)(nil)}, {"uintptr", "bad", uintptr(1)}, {"func", "bad", func() {}}, {"chan", "bad", make(chan int)},
		{"complex", "bad", complex(1, 1)}, {"slice", "bad", []int{1}}, {"map", "bad", map[string]int{}},
	}
	ops := []string{"=", "!=", "<", "<=", ">", ">=", "~=", "==", "", "=>", "like"}
	known := map[string]bool{"=": true, "!=": true, "<": true, "<=": true, ">": true, ">=": true, "~=": true}
	fields := []string{"K", "A", "U", "F", "T", "E", "PX", "V", "S", "N", "Z", "W", "PY", "Y"}
	for _, f := range fields {
		fk := fieldKind(f)
		for _, op := range ops {
			for _, v := range vals {
				kind := "ok"
				switch {
				case v.kind == "bad":
					kind = "badkey"
				case v.kind != fk && !(fk == "time" && v.kind == "int") && !(fk == "int" && v.kind == "time"):
					kind = "mistyped"
				case fk == "time" && v.kind == "int", fk == "int" && v.kind == "time":
					continue // both are int64 keys for the index: neither promised nor refused
				case !known[op]:
					kind = "unknownop"
				case op == "~=" && fk != "string":
					continue // a pattern on a non-string field: documented nowhere, not judged
				}
				if kind != "ok" && kind != "unknownop" && !known[op] {
					kind = "malformed" // wrong in two ways: any error, no objects; which error wins is not promised
				}
				if v.kind == "bad" && f != "K" && f != "S" && f != "W" && f != "N" {
					continue // the key-kind cases need not be repeated on every field
				}
				out = append(out, argCase{Field: Path[f], Op: op, Val: v.v, Kind: kind, Tag: f + ":" + v.tag})
			}
		}
		if fk == "string" {
			for _, pat := range []string{"a(", "[", "*a", "(?P<n", "\\"} {
				out = append(out, argCase{Field: Path[f], Op: "~=", Val: pat, Kind: "badregex", Tag: f + ":pattern"})
			}
		}
	}
	for _, f := range []string{"Nope", "k", "P.Nope", "Emb.X", "P.X.Y", "", "K.K", "uuid", "Item.uuid", "K.", ".K", "P..X", "P.", ".", "Emb.E.", "P.X."} {
		out = append(out, argCase{Field: f, Op: "=", Val: int(1), Kind: "unknownfield", Tag: "?" + f})
		out = append(out, argCase{Field: f, Op: "=", Val: "a", Kind: "unknownfield", Tag: "?" + f})
	}
	// fields that exist but hold no searchable value (struct, slice, map, pointer): any error, no objects
	for _, f := range []string{"P", "Emb", "Item", "L", "M", "B"} {
		out = append(out, argCase{Field: f, Op: "=", Val: int(1), Kind: "notsearchable", Tag: "!" + f})
		out = append(out, argCase{Field: f, Op: ">=", Val: "a", Kind: "notsearchable", Tag: "!" + f})
	}
	return out
}

func (r *Runner) args(op *Op) {
	res := [][]interface{}{}
	for _, c := range argBattery() {
		cls, n, and, msg, orc := "ok", 0, "ok", "", "ok"
		func() {
			defer func() {
				if p := recover(); p != nil {
					cls = "panic"
					msg = fmt.Sprint(p)
				}
			}()
			s := r.db.Search(r.proto(), c.Field, c.Op, c.Val)
			objs, err := s.Collect()
			cls, n = classify(err), len(objs)
			if err == nil && s.Err() != nil {
				cls = "inconsistent-err"
			}
			// the same triple as a refinement of a valid search
			s2 := r.db.Search(r.proto(), "K", ">=", int64(-1<<62)).And(c.Field, c.Op, c.Val)
			o2, err2 := s2.Collect()
			and = classify(err2)
			if c.Kind != "ok" && len(o2) > 0 {
				and = "objects"
			}
			// the same triple joined to a valid search with Or, in both spellings: a query one operand of which cannot
			// be evaluated is an error, it never hands back the other operand's objects
			for i, s3 := range []*sod.Search{
				r.db.Search(r.proto(), "K", ">=", int64(-1<<62)).Or(c.Field, c.Op, c.Val),
				r.db.Search(r.proto(), "K", ">=", int64(-1<<62)).Operation([]string{"or", "||", "OR"}[len(res)%3], c.Field, c.Op, c.Val),
			} {
				o3, err3 := s3.Collect()
				k := classify(err3)
				if c.Kind != "ok" && len(o3) > 0 {
					k = "objects"
				}
				if err3 == nil && s3.Err() != nil {
					k = "inconsistent-err"
				}
				if i == 0 || k != "ok" {
					orc = k
				}
			}
			// One / Len / Delete on a search that could not be evaluated
			if err != nil {
				if _, e := r.db.Search(r.proto(), c.Field, c.Op, c.Val).One(); e == nil {
					cls = "one-ok-after-error"
				}
				if e := r.db.Search(r.proto(), c.Field, c.Op, c.Val).Delete(); e == nil {
					cls = "delete-ok-after-error"
				}
			}
		}()
		res = append(res, []interface{}{c.Tag, c.Op, c.Kind, cls, n, and, msg, orc})
	}
	// a search value that carries BOTH an error and result entries (an unknown logical operator or a failed expectation on
	// a search that had matched, a valid search refined / widened with something that cannot be evaluated): Delete and
	// One refuse it - nothing is deleted
	all := func() *sod.Search { return r.db.Search(r.proto(), "K", ">=", int64(math.MinInt64)) }
	for _, mk := range []struct {
		tag string
		f   func() *sod.Search
	}{
		{"xor", func() *sod.Search { return all().Operation("xor", "K", ">=", int64(math.MinInt64)) }},
		{"nand", func() *sod.Search { return all().Operation("", "K", ">=", int64(math.MinInt64)) }},
		{"expects", func() *sod.Search { return all().Expects(1 << 20) }},
		{"expectszn", func() *sod.Search { return all().ExpectsZeroOrN(1 << 20) }},
		{"and-bad", func() *sod.Search { return all().And("Nope", "=", 1) }},
		{"or-bad", func() *sod.Search { return all().Or("K", "like", int64(1)) }},
		{"or-mistyped", func() *sod.Search { return all().Or("K", "=", "a") }},
	} {
		cls, msg := "ok", ""
		before, _ := r.db.Count(r.proto())
		func() {
			defer func() {
				if p := recover(); p != nil {
					cls, msg = "panic", fmt.Sprint(p)
				}
			}()
			s := mk.f()
			if before == 0 || all().Len() == 0 {
				return // nothing matched: no entries to carry
			}
			if s.Err() == nil {
				cls = "inconsistent-err"
				return
			}
			if _, e := mk.f().One(); e == nil {
				cls = "one-ok-after-error"
			}
			if e := s.Delete(); e == nil {
				cls = "delete-ok-after-error"
			}
			if after, _ := r.db.Count(r.proto()); after != before {
				cls = "delete-ok-after-error"
			}
			cls2 := classify(s.Err())
			if cls == "ok" {
				cls = cls2
			}
		}()
		// (kind "malformed": any error class, no objects)
		if before == 0 {
			continue
		}
		res = append(res, []interface{}{"both:" + mk.tag, "", "malformed", cls, 0, cls, msg, cls})
	}
	_ = sod.ErrCasting
	r.emit(ev{"ev": "args", "res": res})
}
