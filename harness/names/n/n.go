// Package n declares collection types whose names exercise the directory naming (C18).
package n

import "github.com/0xrawsec/sod"

type HTTPServer struct {
	sod.Item
	K int64 `sod:"unique"`
}
type A struct {
	sod.Item
	K int64 `sod:"unique"`
}
type X2Y struct {
	sod.Item
	K int64 `sod:"unique"`
}
type MyURLParser2 struct {
	sod.Item
	K int64 `sod:"unique"`
}
type Lower_case struct {
	sod.Item
	K int64 `sod:"unique"`
}
type ABC struct {
	sod.Item
	K int64 `sod:"unique"`
}
type ÜberTyp struct {
	sod.Item
	K int64 `sod:"unique"`
}
type V2Beta1 struct {
	sod.Item
	K int64 `sod:"unique"`
}
type SimpleName struct {
	sod.Item
	K int64 `sod:"unique"`
}
type Aa struct {
	sod.Item
	K int64 `sod:"unique"`
}

// All returns one object of every type, by type name.
func All() map[string]sod.Object {
	return map[string]sod.Object{
		"HTTPServer": &HTTPServer{K: 1}, "A": &A{K: 1}, "X2Y": &X2Y{K: 1}, "MyURLParser2": &MyURLParser2{K: 1},
		"Lower_case": &Lower_case{K: 1}, "ABC": &ABC{K: 1}, "ÜberTyp": &ÜberTyp{K: 1}, "V2Beta1": &V2Beta1{K: 1},
		"SimpleName": &SimpleName{K: 1}, "Aa": &Aa{K: 1},
	}
}
