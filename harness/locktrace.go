package main

import (
	"bytes"
	"encoding/json"
	"fmt"
	"os"
	"runtime"
	"strconv"
	"strings"
	"sync"

	"github.com/0xrawsec/sod/verifshim/vsync"
)

// Lock-operation recording (binding of the extracted lock model, C09): every
// lock operation of the rewritten package goes through verifshim/vsync; with
// the hook installed it is logged with its goroutine, the source position of
// the call (the same positions the extractor reports, because the extractor
// reads the very source the binary was built from) and the entry point it
// belongs to (the outermost frame of the package on the stack).
// Sequential runs only.

type lockRec struct {
	entry string
	kind  string
	site  string
}

var (
	ltMu   sync.Mutex
	ltOn   bool
	ltOut  *os.File
	ltByG  = map[int64][]lockRec{}
	ltGors []int64
)

func goid() int64 {
	var buf [64]byte
	n := runtime.Stack(buf[:], false)
	f := bytes.Fields(buf[:n])
	if len(f) < 2 {
		return -1
	}
	id, _ := strconv.ParseInt(string(f[1]), 10, 64)
	return id
}

var kindOf = map[string]string{"lock!": "lock", "rlock!": "rlock", "unlock": "unlock", "runlock": "runlock"}

const sodPrefix = "github.com/0xrawsec/sod."

// entryName maps a runtime function name to the extractor's program name.
func entryName(fn string) string {
	s := strings.TrimPrefix(fn, sodPrefix)
	if strings.Contains(s, ".func") {
		return "goroutine"
	}
	s = strings.NewReplacer("(*", "", ")", "").Replace(s)
	return strings.ReplaceAll(s, ".", "_")
}

func startLockTrace(path string) {
	f, err := os.Create(path)
	if err != nil {
		panic(err)
	}
	ltOut, ltOn = f, true
	vsync.SetHook(func(ev string, m uintptr) {
		k, ok := kindOf[ev]
		if !ok {
			return
		}
		site, entry := "?", "?"
		pcs := make([]uintptr, 48)
		n := runtime.Callers(3, pcs)
		frames := runtime.CallersFrames(pcs[:n])
		for {
			fr, more := frames.Next()
			inShim := strings.Contains(fr.File, "/verifshim/")
			if site == "?" && !inShim {
				site = fmt.Sprintf("%s:%d", fr.File[strings.LastIndex(fr.File, "/")+1:], fr.Line)
			}
			if strings.HasPrefix(fr.Function, sodPrefix) && !inShim {
				entry = entryName(fr.Function) // keeps the outermost one
			}
			if !more {
				break
			}
		}
		g := goid()
		ltMu.Lock()
		if _, seen := ltByG[g]; !seen {
			ltGors = append(ltGors, g)
		}
		ltByG[g] = append(ltByG[g], lockRec{entry, k, site})
		ltMu.Unlock()
	})
}

func stopLockTrace() {
	vsync.SetHook(nil)
	ltMu.Lock()
	defer ltMu.Unlock()
	enc := json.NewEncoder(ltOut)
	for _, g := range ltGors {
		recs := ltByG[g]
		// consecutive operations of the same entry point form one record (several calls in a row
		// of the same entry point are accepted by the restart edge of the trace specification)
		i := 0
		for i < len(recs) {
			j := i
			ops := [][]string{}
			for j < len(recs) && recs[j].entry == recs[i].entry {
				ops = append(ops, []string{recs[j].kind, recs[j].site})
				j++
			}
			enc.Encode(map[string]interface{}{"entry": recs[i].entry, "g": g, "ops": ops})
			i = j
		}
	}
	ltOut.Close()
	ltOn = false
}
