package main

import (
	"crypto/sha256"
	"encoding/json"
	"flag"
	"fmt"
	"io"
	"os"
	"path/filepath"
	"sort"
	"time"

	"github.com/0xrawsec/sod"

	s0 "verifh/shapes/s0/m"
	s1 "verifh/shapes/s1/m"
	s2 "verifh/shapes/s2/m"
	s3 "verifh/shapes/s3/m"
	s4 "verifh/shapes/s4/m"
	s5 "verifh/shapes/s5/m"
	s6 "verifh/shapes/s6/m"
	s7 "verifh/shapes/s7/m"
	s8 "verifh/shapes/s8/m"
	s9 "verifh/shapes/s9/m"
)

// C17 (shape part): a directory populated under one declaration of the type m.T
// is opened under another declaration of m.T (same collection name).

type shape struct {
	name  string
	proto func() sod.Object
	mk    func(k int64, a int, n string) sod.Object
	key   func(sod.Object) int64
}

var shapeTab = []shape{
	{"s0", s0.Proto, s0.New, s0.Key}, {"s1", s1.Proto, s1.New, s1.Key}, {"s2", s2.Proto, s2.New, s2.Key}, {"s3", s3.Proto, s3.New, s3.Key},
	{"s4", s4.Proto, s4.New, s4.Key}, {"s5", s5.Proto, s5.New, s5.Key}, {"s6", s6.Proto, s6.New, s6.Key}, {"s7", s7.Proto, s7.New, s7.Key},
	{"s8", s8.Proto, s8.New, s8.Key}, {"s9", s9.Proto, s9.New, s9.Key},
}

// how two declarations relate, from the declarations themselves (the table in shapes/):
// fields (path, type) differ -> "shape"; only constraints differ -> "constraint"; identical -> "compat"
var shapeFields = map[string]string{
	"s0": "K:int64 A:int N:string V:int", "s1": "K:int64 A:int N:string V:int X:int", "s2": "K:int64 A:int N:string",
	"s3": "K:int64 A:int64 N:string V:int", "s4": "K:int64 A:int N:int V:int", "s5": "K:int64 A:int N:string V:int",
	"s6": "K:int64 A:int N:string V:int", "s7": "K:int64 A:int N:string V:int", "s8": "K:int64 A:int N:string V:int",
	"s9": "K:int64 A:int N:string V:int P.Z:int",
}
var shapeCons = map[string]string{
	"s0": "K:u A:i N:il", "s1": "K:u A:i N:il", "s2": "K:u A:i N:il", "s3": "K:u A:i N:il", "s4": "K:u A:i N:i",
	"s5": "K:u A: N:il", "s6": "K:i A:i N:il", "s7": "K:u A:i N:iu", "s8": "K:u A:i N:il", "s9": "K:u A:i N:il",
}

func relation(a, b string) string {
	switch {
	case shapeFields[a] != shapeFields[b]:
		return "shape"
	case shapeCons[a] != shapeCons[b]:
		return "constraint"
	}
	return "compat"
}

func hashDir(root string) string {
	h := sha256.New()
	names := []string{}
	filepath.Walk(root, func(p string, info os.FileInfo, err error) error {
		if err == nil {
			names = append(names, p)
		}
		return nil
	})
	sort.Strings(names)
	for _, p := range names {
		rel, _ := filepath.Rel(root, p)
		fmt.Fprintf(h, "%s\n", rel)
		if st, err := os.Stat(p); err == nil && st.Mode().IsRegular() {
			f, _ := os.Open(p)
			io.Copy(h, f)
			f.Close()
		}
	}
	return fmt.Sprintf("%x", h.Sum(nil))
}

func guardC(f func() error) (c string) {
	defer func() {
		if p := recover(); p != nil {
			c = "panic"
		}
	}()
	return classify(f())
}

func shapeSchema(cache, async bool, ext string) sod.Schema {
	s := sod.DefaultSchema
	s.Extension = ext
	s.Cache = cache
	if async {
		s.Asynchrone(1000, time.Hour)
	}
	return s
}

// schemaSettings: the cache / asynchronous-writes settings persisted in the schema.json files under root
func schemaSettings(root string) string {
	out := ""
	filepath.Walk(root, func(p string, info os.FileInfo, err error) error {
		if err == nil && !info.IsDir() && filepath.Base(p) == "schema.json" {
			var m map[string]interface{}
			if b, e := os.ReadFile(p); e == nil && json.Unmarshal(b, &m) == nil {
				j, _ := json.Marshal([]interface{}{m["cache"], m["async-writes"]})
				out += string(j)
			}
		}
		return nil
	})
	return out
}

func countObjectFiles(root string) int {
	n := 0
	filepath.Walk(root, func(p string, info os.FileInfo, err error) error {
		if err == nil && !info.IsDir() && filepath.Base(p) != "schema.json" {
			n++
		}
		return nil
	})
	return n
}

func init() { extraCmds["shapes"] = cmdShapes }

func cmdShapes(args []string) {
	fs := flag.NewFlagSet("shapes", flag.ExitOnError)
	out := fs.String("out", "", "ndjson output")
	work := fs.String("work", "/dev/shm", "scratch directory")
	nobj := fs.Int("n", 3, "objects written under the first declaration")
	fs.Parse(args)
	of, err := os.Create(*out)
	if err != nil {
		panic(err)
	}
	defer of.Close()
	enc := json.NewEncoder(of)
	enc.SetEscapeHTML(false)
	enc.Encode(ev{"ev": "reset", "id": "shapes"})
	for _, cfg := range []struct {
		cache, async bool
		ext          string
	}{{false, false, ".json"}, {true, false, ".json"}, {true, true, ".dat"}} {
		for _, a := range shapeTab {
			for _, b := range shapeTab {
				for _, ext2 := range []string{cfg.ext, ".other"} {
					if ext2 != cfg.ext && a.name != b.name {
						continue // the extension change is exercised on the unchanged declaration
					}
					root, _ := os.MkdirTemp(*work, "shape")
					// populate under declaration a
					db := sod.Open(root)
					e := ev{"ev": "shape", "from": a.name, "to": b.name, "cache": cfg.cache, "async": cfg.async}
					e["rel"] = relation(a.name, b.name)
					if ext2 != cfg.ext {
						e["rel"] = "ext"
					}
					e["setup"] = guardC(func() error {
						if err := db.Create(a.proto(), shapeSchema(cfg.cache, cfg.async, cfg.ext)); err != nil {
							return err
						}
						for i := 0; i < *nobj; i++ {
							if err := db.InsertOrUpdate(a.mk(int64(i), i%2, fmt.Sprintf("n%d", i))); err != nil {
								return err
							}
						}
						return db.Close()
					})
					before := hashDir(root)
					// open under declaration b
					db2 := sod.Open(root)
					res := [][]interface{}{}
					call := func(name string, f func() error) { res = append(res, []interface{}{name, guardC(f)}) }
					sch := shapeSchema(cfg.cache, cfg.async, ext2)
					if e["rel"] != "compat" {
						// a Create that must be refused also asks for the opposite cache / async settings: a refusal changes nothing
						sch = shapeSchema(!cfg.cache, !cfg.async, ext2)
					}
					e["settings_before"] = schemaSettings(root)
					var first sod.Object
					n := -1
					call("create", func() error { return db2.Create(b.proto(), sch) })
					call("create2", func() error { return db2.Create(b.proto(), sch) })
					call("count", func() error { var err error; n, err = db2.Count(b.proto()); return err })
					call("all", func() error {
						objs, err := db2.All(b.proto())
						if err == nil && len(objs) > 0 {
							first = objs[0]
						}
						return err
					})
					call("search", func() error { _, err := db2.Search(b.proto(), "K", ">=", int64(0)).Collect(); return err })
					call("exist", func() error {
						if first == nil {
							o := b.proto()
							o.Initialize("00000000-0000-4000-8000-000000000000")
							_, err := db2.Exist(o)
							return err
						}
						_, err := db2.Exist(first)
						return err
					})
					call("schema", func() error { _, err := db2.Schema(b.proto()); return err })
					e["count"] = n
					e["same_after_reads"] = hashDir(root) == before
					nf := countObjectFiles(root)
					call("put", func() error { return db2.InsertOrUpdate(b.mk(100, 1, "new")) })
					e["put_files"] = countObjectFiles(root) - nf
					call("many", func() error { _, err := db2.InsertOrUpdateMany(b.mk(101, 1, "new2")); return err })
					call("delete", func() error {
						o := b.proto()
						o.Initialize("00000000-0000-4000-8000-000000000000")
						return db2.Delete(o)
					})
					call("deleteall", func() error {
						if e["rel"] == "compat" {
							return nil // would legitimately empty the collection
						}
						return db2.DeleteAll(b.proto())
					})
					call("repair", func() error {
						if e["rel"] == "compat" {
							return nil
						}
						return db2.Repair(b.proto())
					})
					call("flush", func() error { return db2.FlushAllAndCommit(b.proto()) })
					call("close", func() error { return db2.Close() })
					e["same"] = hashDir(root) == before
					e["settings_after"] = schemaSettings(root)
					e["res"] = res
					// the original declaration still sees its data
					db3 := sod.Open(root)
					n3 := -1
					e["reopen_a"] = guardC(func() error { var err error; n3, err = db3.Count(a.proto()); return err })
					e["count_a"] = n3
					db3.Close()
					enc.Encode(e)
					os.RemoveAll(root)
				}
			}
		}
	}
	enc.Encode(ev{"ev": "end"})
}
