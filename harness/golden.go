package main

import (
	"bufio"
	"encoding/json"
	"os"
	"os/exec"
	"path/filepath"
)

// Golden corpus (C18): directories written by the PINNED release of sod (the harness built against a
// worktree of the pinned commit, run with -keep) are kept with the slot -> uuid table and the recorded
// trace of the history that produced them.  A check then copies such a directory, re-emits the recorded
// events (so that the specification rebuilds the abstract state), opens the copy with the CURRENT code
// and carries on: sweeps, writes, reopen.

var (
	KeepDir   string
	curRunner *Runner
	keepLines []json.RawMessage
)

type goldenMeta struct {
	Slots map[int]string `json:"slots"`
	Ghost []string       `json:"ghost"`
	Cfg   Cfg            `json:"cfg"`
}

func keepGolden(t *Test, root string) {
	r := curRunner
	if r == nil {
		return
	}
	dst := filepath.Join(KeepDir, t.ID)
	os.RemoveAll(dst)
	os.MkdirAll(dst, 0o755)
	exec.Command("cp", "-r", root, filepath.Join(dst, "db")).Run()
	b, _ := json.MarshalIndent(goldenMeta{Slots: r.slots, Ghost: r.ghost, Cfg: r.cfg}, "", " ")
	os.WriteFile(filepath.Join(dst, "meta.json"), b, 0o644)
	f, _ := os.Create(filepath.Join(dst, "trace.ndjson"))
	for _, l := range r.kept {
		f.Write(l)
		f.Write([]byte("\n"))
	}
	f.Close()
}

// adopt replaces the fresh root by a copy of the golden directory and takes over its identifiers.
func (r *Runner) adopt() {
	os.RemoveAll(r.root)
	if out, err := exec.Command("cp", "-r", filepath.Join(r.t.Adopt, "db"), r.root).CombinedOutput(); err != nil {
		panic("adopt: " + string(out))
	}
	b, err := os.ReadFile(filepath.Join(r.t.Adopt, "meta.json"))
	if err != nil {
		panic(err)
	}
	var m goldenMeta
	if err := json.Unmarshal(b, &m); err != nil {
		panic(err)
	}
	for s, u := range m.Slots {
		r.slots[s] = u
		r.rev[u] = s
		r.seen[u] = true
	}
	r.ghost = m.Ghost
	r.cfg = m.Cfg
}

// adoptedTrace re-emits the events recorded when the pinned release wrote the directory (all but the
// frame events), then a reopen event: the handle of the pinned process is gone, a new one was opened.
func (r *Runner) adoptedTrace() {
	f, err := os.Open(filepath.Join(r.t.Adopt, "trace.ndjson"))
	if err != nil {
		panic(err)
	}
	defer f.Close()
	sc := bufio.NewScanner(f)
	sc.Buffer(make([]byte, 1<<20), 1<<28)
	for sc.Scan() {
		var e map[string]interface{}
		if json.Unmarshal(sc.Bytes(), &e) != nil {
			continue
		}
		switch e["ev"] {
		case "reset", "hdr", "end", "obs":
			// only what the pinned release ACKNOWLEDGED is replayed (the abstract state is rebuilt from it);
			// what it reported when reading is not: its reads are not the reference, the accepted writes are
			continue
		}
		if v, ok := e["o"].(map[string]interface{}); ok {
			uv := Vals{}
			for k, x := range v {
				if f, ok := x.(float64); ok {
					uv[k] = int(f)
				}
			}
			r.noteUsed(uv)
		}
		r.emit(ev(e))
	}
	r.emit(ev{"ev": "reopen", "close": false, "create": true, "c": "ok", "cc": "ok", "adopted": true})
}
