package main

import (
	"compress/gzip"
	"encoding/json"
	"io"
	"os"
	"path/filepath"
	"sort"
	"strings"
)

// Independent walk of the collection directory (C18, C05, C11): names,
// decoding with encoding/json (+ gzip) only; nothing from the sod package.

// expected directory names, as produced by the pinned release
func expectedDir(plain, lc bool) string {
	switch {
	case !plain && !lc:
		return "main.Rec"
	case plain && !lc:
		return "main.RecPlain"
	case !plain && lc:
		return "main._rec"
	default:
		return "main._rec_plain"
	}
}

func decodeFile(path string, gz bool, into interface{}) error {
	f, err := os.Open(path)
	if err != nil {
		return err
	}
	defer f.Close()
	var rd io.Reader = f
	if gz {
		g, err := gzip.NewReader(f)
		if err != nil {
			return err
		}
		defer g.Close()
		rd = g
	}
	b, err := io.ReadAll(rd)
	if err != nil {
		return err
	}
	return json.Unmarshal(b, into)
}

// walk returns the "dir" part of an obs event.
func (r *Runner) walk() ev {
	d := ev{}
	entries, err := os.ReadDir(r.root)
	names := []string{}
	if err == nil {
		for _, e := range entries {
			names = append(names, e.Name())
		}
	}
	sort.Strings(names)
	d["colls"] = names
	want := expectedDir(r.cfg.Plain, r.cfg.Lc)
	d["want"] = want
	if r.t.Aux {
		d["xwant"] = auxDir(r.cfg.Lc)
	}
	dir := filepath.Join(r.root, want)
	ents, err := os.ReadDir(dir)
	d["exists"] = err == nil
	files := [][]interface{}{}
	extra := []string{}
	hasSchema := false
	suffix := extOf(r.cfg)
	if r.cfg.Gz {
		suffix += ".gz"
	}
	for _, e := range ents {
		name := e.Name()
		if name == "schema.json" && e.Type().IsRegular() {
			hasSchema = true
			var any map[string]interface{}
			if err := decodeFile(filepath.Join(dir, name), false, &any); err != nil {
				d["schema_err"] = err.Error()
			}
			// which objects the committed index knows (slots), read structurally
			sidx := []int{}
			if idx, ok := any["index"].(map[string]interface{}); ok {
				if ids, ok := idx["object-ids"].(map[string]interface{}); ok {
					for _, u := range ids {
						if us, ok := u.(string); ok {
							if s, known := r.rev[us]; known {
								sidx = append(sidx, s)
							} else {
								sidx = append(sidx, 0)
							}
						}
					}
				}
			}
			sort.Ints(sidx)
			d["sidx"] = sidx
			continue
		}
		// (a name starting with a dot is never an object file: the library's temporary files are named that way)
		if !strings.HasSuffix(name, suffix) || !e.Type().IsRegular() || strings.HasPrefix(name, ".") {
			extra = append(extra, name)
			continue
		}
		u := strings.TrimSuffix(name, suffix)
		slot, known := r.rev[u]
		if !known {
			slot = 0
		}
		rec := &Rec{}
		if err := decodeFile(filepath.Join(dir, name), r.cfg.Gz, rec); err != nil {
			files = append(files, []interface{}{slot, 0, "undecodable"})
			continue
		}
		rec.Initialize(u)
		files = append(files, []interface{}{slot, r.recID(rec), "ok"})
	}
	sort.Slice(files, func(i, j int) bool { return files[i][0].(int) < files[j][0].(int) })
	d["files"] = files
	d["extra"] = extra
	d["schema"] = hasSchema
	return d
}
