package main

// C14 mutation events: implemented later; placeholder keeps the executor complete.
func (r *Runner) mutateImpl(op *Op) {
	r.emit(ev{"ev": "mutate", "what": op.What, "slot": op.Slot, "c": "skipped"})
}
