package main

import (
	"github.com/0xrawsec/sod"
	"math"
)

// scribble overwrites every mutable part of an object in place: scalars,
// slice elements (and appends), map entries, pointer targets, nested structs,
// values held in interfaces.
func scribble(r *Rec) {
	r.K += 1000
	r.S += "~"
	r.A += 1000
	r.U += 1000
	r.F += 1000
	r.N += "~"
	r.T = r.T.AddDate(1, 0, 0)
	r.E += 1000
	if r.P != nil {
		r.P.X += 1000
		r.P.Y += "~"
	}
	r.Z += "~"
	r.V += 1000
	r.W += "~"
	r.O += 1000
	for i := range r.L {
		r.L[i] += 1000
	}
	r.L = append(r.L, 31337)
	for k, v := range r.M {
		for _, s := range v {
			if s != nil {
				s.X += 1000
				s.Y += "~"
			}
		}
		r.M[k] = append(v, &Sub{X: 31337})
	}
	if r.M != nil {
		r.M["scribbled"] = nil
	}
	if r.Q != nil {
		*r.Q += 1000
	}
	switch t := r.I.(type) {
	case map[string]interface{}:
		t["scribbled"] = 1
		for k, v := range t {
			if l, ok := v.([]interface{}); ok && len(l) > 0 {
				l[0] = "scribbled"
				t[k] = l
			}
			if m, ok := v.(map[string]interface{}); ok {
				m["scribbled"] = 1
			}
		}
	case []interface{}:
		if len(t) > 0 {
			if m, ok := t[0].(map[string]interface{}); ok {
				m["scribbled"] = 1
				for _, v := range m {
					if mm, ok := v.(map[string]interface{}); ok {
						mm["scribbled"] = 1
					}
				}
			}
			t[0] = "scribbled"
		}
	case *Sub:
		t.X += 1000
	}
	for i := range r.B {
		r.B[i] ^= 0xff
	}
	scribbleGrp := func(g *Grp) {
		for i := range g.Tags {
			g.Tags[i] += "~"
		}
		for k := range g.Attrs {
			g.Attrs[k] += 1000
		}
		if g.Attrs != nil {
			g.Attrs["scribbled"] = 1
		}
		if g.Cnt != nil {
			*g.Cnt += 1000
		}
		for i := range g.Inner {
			g.Inner[i].X += 1000
		}
	}
	for i := range r.G {
		scribbleGrp(&r.G[i])
	}
	for k, g := range r.H {
		scribbleGrp(&g) // containers inside the copy are shared with the map's element
		_ = k
	}
	for i := range r.J {
		for j := range r.J[i] {
			r.J[i][j] += 1000
		}
	}
	if l, ok := r.I.([]interface{}); ok {
		for _, x := range l {
			if ll, ok := x.([]interface{}); ok && len(ll) > 0 {
				ll[0] = "scribbled"
			}
		}
	}
}

// C14 mutation events.
//
//	what = "arg":   scribble over the object that was passed to the last write of the slot
//	what = "ret":   read the slot (Get), scribble over the returned object
//	what = "all":   read everything (All), scribble over every returned object
//	what = "share": read the slot twice, scribble over the first result, re-project the second
func (r *Runner) mutateImpl(op *Op) {
	e := ev{"ev": "mutate", "what": op.What, "slot": op.Slot, "c": "ok"}
	switch op.What {
	case "arg":
		if o := r.lastArg[op.Slot]; o != nil {
			scribble(asRec(o))
		} else {
			e["c"] = "none"
		}
	case "ret":
		o, err := r.db.Get(r.ident(op.Slot))
		e["c"] = classify(err)
		if err == nil {
			scribble(asRec(o))
		}
	case "all":
		objs, err := r.db.All(r.proto())
		e["c"] = classify(err)
		for _, o := range objs {
			scribble(asRec(o))
		}
	case "search":
		// objects returned by a search (indexed field, then unindexed field)
		for _, f := range []string{"K", "V"} {
			var val interface{} = int64(-1 << 62)
			if f == "V" {
				val = -1 << 40
			}
			objs, err := r.db.Search(r.proto(), f, ">=", val).Collect()
			e["c"] = classify(err)
			for _, o := range objs {
				scribble(asRec(o))
			}
		}
	case "one":
		// One / AssignOne / AssignUnique with ONE probe object used for two look-ups (callers keep a probe around): each
		// result is memory of its own - not the probe, not the other result - and equals the stored object
		probe := r.proto()
		u := r.slots[op.Slot]
		k := asRec(r.ident(op.Slot))
		_ = k
		var o1, o2 sod.Object
		var err error
		s1 := r.db.Search(probe, "K", ">=", int64(math.MinInt64))
		switch op.N % 3 {
		case 0:
			o1, err = s1.One()
		case 1:
			if r.cfg.Plain {
				var t *RecPlain
				if err = s1.AssignOne(&t); err == nil {
					o1 = t
				}
			} else {
				var t *Rec
				if err = s1.AssignOne(&t); err == nil {
					o1 = t
				}
			}
		default:
			o1, err = s1.Reverse().One()
		}
		e["c"] = classify(err)
		_ = u
		if err == nil && o1 != nil {
			e["slot1"] = r.slotOf(o1.UUID())
			e["before"] = r.project(o1)
			e["isprobe"] = o1 == probe
			// the second look-up with the same probe: the other end of the order
			if op.N%3 == 2 {
				o2, err = r.db.Search(probe, "K", ">=", int64(math.MinInt64)).One()
			} else {
				o2, err = r.db.Search(probe, "K", ">=", int64(math.MinInt64)).Reverse().One()
			}
			if err == nil && o2 != nil {
				e["same"] = o1 == o2
				e["after"] = r.project(o1) // the first result after the second look-up
				scribble(asRec(o2))
				e["after2"] = r.project(o1) // ... and after the second result was scribbled over
			}
		} else if err == nil {
			e["c"] = "none"
		}
	case "share":
		var o1, o2 sod.Object
		var err error
		o1, err = r.db.Get(r.ident(op.Slot))
		if err == nil {
			if op.N%2 == 0 {
				o2, err = r.db.GetByUUID(r.proto(), o1.UUID())
			} else {
				var objs []sod.Object
				objs, err = r.db.All(r.proto())
				for _, x := range objs {
					if x.UUID() == o1.UUID() {
						o2 = x
					}
				}
			}
		}
		e["c"] = classify(err)
		if err == nil && o2 != nil {
			e["before"] = r.project(o2)
			scribble(asRec(o1))
			e["after"] = r.project(o2)
		} else if err == nil {
			e["c"] = "none"
		}
	}
	r.emit(e)
}
