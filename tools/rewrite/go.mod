module verif/tools/rewrite

go 1.18
