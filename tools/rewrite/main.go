// rewrite copies the non-test Go files of the sod package (top-level directory
// of -src) into -dst and redirects file-system calls, time.Sleep and the sync
// mutex types to the verification shims (copied to -dst/verifshim).  Only the
// scratch copy is touched; /repo is read, never written.
package main

import (
	"bytes"
	"flag"
	"fmt"
	"go/ast"
	"go/format"
	"go/parser"
	"go/token"
	"io"
	"os"
	"path/filepath"
	"strconv"
	"strings"
)

var osFuncs = map[string]string{
	"MkdirAll": "MkdirAll", "Mkdir": "Mkdir", "OpenFile": "OpenFile", "Open": "Open", "Create": "Create",
	"CreateTemp": "CreateTemp", "WriteFile": "WriteFile", "ReadFile": "ReadFile", "Remove": "Remove",
	"RemoveAll": "RemoveAll", "Rename": "Rename", "Link": "Link", "Symlink": "Symlink", "Truncate": "Truncate",
	"Chmod": "Chmod", "Stat": "Stat", "Lstat": "Lstat", "ReadDir": "ReadDir",
}

var ioutilFuncs = map[string]string{
	"WriteFile": "WriteFile", "ReadFile": "ReadFile", "ReadDir": "IoutilReadDir", "TempFile": "TempFile",
}

var syncTypes = map[string]bool{"Mutex": true, "RWMutex": true}

func main() {
	src := flag.String("src", "/repo", "source directory of the sod package")
	dst := flag.String("dst", "", "destination directory")
	shim := flag.String("shim", "", "directory holding vfs/ vsync/ vtime/")
	module := flag.String("module", "github.com/0xrawsec/sod", "module path")
	plain := flag.Bool("plain", false, "copy only, no rewriting")
	flag.Parse()
	if *dst == "" || *shim == "" {
		fmt.Fprintln(os.Stderr, "usage: rewrite -src DIR -dst DIR -shim DIR")
		os.Exit(2)
	}
	must(os.MkdirAll(*dst, 0o755))
	entries, err := os.ReadDir(*src)
	must(err)
	n := 0
	for _, e := range entries {
		name := e.Name()
		if e.IsDir() {
			continue
		}
		switch {
		case name == "go.mod" || name == "go.sum":
			copyFile(filepath.Join(*src, name), filepath.Join(*dst, name))
		case strings.HasSuffix(name, ".go") && !strings.HasSuffix(name, "_test.go"):
			if *plain {
				copyFile(filepath.Join(*src, name), filepath.Join(*dst, name))
			} else {
				n += rewriteFile(filepath.Join(*src, name), filepath.Join(*dst, name), *module)
			}
		}
	}
	for _, p := range []string{"vfs", "vsync", "vtime"} {
		d := filepath.Join(*dst, "verifshim", p)
		must(os.MkdirAll(d, 0o755))
		files, err := filepath.Glob(filepath.Join(*shim, p, "*.go"))
		must(err)
		for _, f := range files {
			copyFile(f, filepath.Join(d, filepath.Base(f)))
		}
	}
	fmt.Printf("rewrite: %d call sites redirected\n", n)
}

func must(err error) {
	if err != nil {
		fmt.Fprintln(os.Stderr, "rewrite:", err)
		os.Exit(2)
	}
}

func copyFile(a, b string) {
	in, err := os.Open(a)
	must(err)
	defer in.Close()
	out, err := os.Create(b)
	must(err)
	defer out.Close()
	_, err = io.Copy(out, in)
	must(err)
}

func rewriteFile(src, dst, module string) int {
	fset := token.NewFileSet()
	f, err := parser.ParseFile(fset, src, nil, parser.ParseComments)
	must(err)

	// local names of the imports we care about
	names := map[string]string{} // path -> local name
	for _, im := range f.Imports {
		p, _ := strconv.Unquote(im.Path.Value)
		local := filepath.Base(p)
		if im.Name != nil {
			local = im.Name.Name
		}
		names[p] = local
	}
	need := map[string]bool{}
	count := 0
	ast.Inspect(f, func(n ast.Node) bool {
		sel, ok := n.(*ast.SelectorExpr)
		if !ok {
			return true
		}
		id, ok := sel.X.(*ast.Ident)
		if !ok || id.Obj != nil { // id.Obj != nil: a local variable shadows the package
			return true
		}
		switch {
		case names["os"] != "" && id.Name == names["os"]:
			if to, ok := osFuncs[sel.Sel.Name]; ok {
				id.Name, sel.Sel.Name = "vfs", to
				need["vfs"] = true
				count++
			}
		case names["io/ioutil"] != "" && id.Name == names["io/ioutil"]:
			if to, ok := ioutilFuncs[sel.Sel.Name]; ok {
				id.Name, sel.Sel.Name = "vfs", to
				need["vfs"] = true
				count++
			}
		case names["time"] != "" && id.Name == names["time"]:
			if sel.Sel.Name == "Sleep" {
				id.Name = "vtime"
				need["vtime"] = true
				count++
			}
		case names["sync"] != "" && id.Name == names["sync"]:
			if syncTypes[sel.Sel.Name] {
				id.Name = "vsync"
				need["vsync"] = true
				count++
			}
		}
		return true
	})

	// which packages are still referenced
	used := map[string]bool{}
	ast.Inspect(f, func(n ast.Node) bool {
		if sel, ok := n.(*ast.SelectorExpr); ok {
			if id, ok := sel.X.(*ast.Ident); ok && id.Obj == nil {
				used[id.Name] = true
			}
		}
		return true
	})
	// drop imports that became unused, add shim imports
	for _, d := range f.Decls {
		gd, ok := d.(*ast.GenDecl)
		if !ok || gd.Tok != token.IMPORT {
			continue
		}
		var specs []ast.Spec
		for _, s := range gd.Specs {
			im := s.(*ast.ImportSpec)
			p, _ := strconv.Unquote(im.Path.Value)
			local := filepath.Base(p)
			if im.Name != nil {
				local = im.Name.Name
			}
			if local == "_" || local == "." || used[local] {
				specs = append(specs, s)
			}
		}
		for _, p := range []string{"vfs", "vsync", "vtime"} {
			if need[p] {
				specs = append(specs, &ast.ImportSpec{Path: &ast.BasicLit{Kind: token.STRING, Value: strconv.Quote(module + "/verifshim/" + p)}})
				need[p] = false
			}
		}
		gd.Specs = specs
		if len(specs) > 1 && !gd.Lparen.IsValid() {
			gd.Lparen = gd.Pos()
			gd.Rparen = gd.End()
		}
		break
	}
	for p, n := range need {
		if n { // file had no import declaration at all
			_ = p
			must(fmt.Errorf("%s: no import declaration to extend", src))
		}
	}
	var buf bytes.Buffer
	must(format.Node(&buf, fset, f))
	must(os.WriteFile(dst, buf.Bytes(), 0o644))
	return count
}
