module verif/tools/extract

go 1.22.0

toolchain go1.23.5

require golang.org/x/tools v0.29.0

require (
	golang.org/x/mod v0.22.0 // indirect
	golang.org/x/sync v0.10.0 // indirect
)
