// extract derives, from the CURRENT source of the sod package, the lock
// behaviour of every exported entry point and of every spawned goroutine, and
// writes it as a TLA+ module (SodLockFacts.tla) and as JSON.
//
// For each entry point the result is a small non-deterministic program over
// lock operations:
//
//	ops  : the lock operations in source order, after inlining every call to a
//	       function or method of the package (recursion is cut);
//	eps  : epsilon edges <<i, j>> - an if / switch / select body may be skipped,
//	       a loop body may be skipped or repeated, a return jumps to the deferred
//	       calls of its function;
//	a mutex is identified by the path of the expression it is reached through
//	(db.l, db.sl, db.cache, db.cache.map, db.asyncw, db.asyncw.map), so that the
//	two object stores of a handle are different mutexes.
//
// Calls through interfaces (the user's Transform / Validate hooks) and calls to
// other packages carry no lock operation of the package and are skipped.
package main

import (
	"encoding/json"
	"flag"
	"fmt"
	"go/ast"
	"go/token"
	"go/types"
	"os"
	"sort"
	"strings"

	"golang.org/x/tools/go/packages"
)

type LockOp struct {
	Kind string      `json:"k"` // lock unlock rlock runlock; race model: acc
	M    string      `json:"m"` // mutex instance path
	Site string      `json:"site"`
	Acc  [][3]string `json:"acc,omitempty"` // acc: the accesses (kind, location, site) of one lock-free stretch of code
}

type Program struct {
	Name  string   `json:"name"`
	Ops   []LockOp `json:"ops"`
	Eps   [][2]int `json:"eps"`   // 1-based positions; n+1 is the end
	Spawn []string `json:"spawn"` // goroutine programs started by this entry point
	Loops bool     `json:"loops"` // goroutine body is an endless loop
}

type extractor struct {
	pkg    *packages.Package
	funcs  map[*types.Func]*ast.FuncDecl
	progs  map[string]*Program
	gocnt  int
	fset   *token.FileSet
	dbType types.Type
	acc    bool // also emit the accesses ("rd" / "wr") to fields of the shared structures (race model)
}

type frame struct {
	env    map[types.Object]string // receiver / parameter -> instance path
	stack  []*types.Func
	defers []func()
	// positions at which a "return" happened, to be linked to the defer section,
	// with the number of deferred calls registered by then
	returns []retPoint
}

type retPoint struct {
	pos     int
	ndefers int
}

type builder struct {
	ex      *extractor
	p       *Program
	path    []*types.Func
	inDefer int   // > 0 while emitting deferred calls: their run-time position is the return, not the defer statement
	marks   []int // positions handed out by pos(): an epsilon edge may start or end there later
}

func main() {
	dir := flag.String("dir", "/repo", "package directory")
	out := flag.String("out", "", "output TLA+ module (SodLockFacts.tla)")
	jout := flag.String("json", "", "output JSON")
	rout := flag.String("race", "", "output TLA+ module with the accesses to shared fields as well (SodRaceFacts.tla)")
	flag.Parse()
	cfg := &packages.Config{Mode: packages.NeedTypes | packages.NeedSyntax | packages.NeedTypesInfo | packages.NeedName | packages.NeedImports | packages.NeedDeps | packages.NeedFiles, Dir: *dir}
	pkgs, err := packages.Load(cfg, ".")
	if err != nil || len(pkgs) != 1 || len(pkgs[0].Errors) > 0 {
		fmt.Fprintln(os.Stderr, "extract: cannot load package:", err, pkgs)
		os.Exit(2)
	}
	ex := &extractor{pkg: pkgs[0], funcs: map[*types.Func]*ast.FuncDecl{}, progs: map[string]*Program{}, fset: pkgs[0].Fset}
	for _, f := range ex.pkg.Syntax {
		if strings.HasSuffix(ex.fset.Position(f.Pos()).Filename, "_test.go") {
			continue
		}
		for _, d := range f.Decls {
			if fd, ok := d.(*ast.FuncDecl); ok && fd.Body != nil {
				if obj, ok := ex.pkg.TypesInfo.Defs[fd.Name].(*types.Func); ok {
					ex.funcs[obj] = fd
				}
			}
		}
	}
	if o := ex.pkg.Types.Scope().Lookup("DB"); o != nil {
		ex.dbType = o.Type()
	}
	// entry points: exported functions, exported methods of exported types
	var entries []*types.Func
	for fn, fd := range ex.funcs {
		if !fd.Name.IsExported() {
			continue
		}
		if fd.Recv != nil {
			t := recvNamed(fn)
			if t == nil || !t.Obj().Exported() {
				continue
			}
		}
		if n := recvNamed(fn); n != nil && n.Obj().Name() == "DB" && lockKinds[fd.Name.Name] != "" {
			continue // the exported lock accessors themselves are not calls that return a result
		}
		entries = append(entries, fn)
	}
	sort.Slice(entries, func(i, j int) bool { return fullName(entries[i]) < fullName(entries[j]) })
	for _, fn := range entries {
		ex.build(fullName(fn), fn, nil)
	}
	names := make([]string, 0, len(ex.progs))
	for n := range ex.progs {
		names = append(names, n)
	}
	sort.Strings(names)
	list := []*Program{}
	for _, n := range names {
		list = append(list, ex.progs[n])
	}
	if *jout != "" {
		b, _ := json.MarshalIndent(list, "", " ")
		os.WriteFile(*jout, b, 0o644)
	}
	if *out != "" {
		os.WriteFile(*out, []byte(tla(list, false)), 0o644)
	}
	if *rout != "" {
		// second pass: the same programs with the accesses to the fields of the shared structures in between
		ex.acc, ex.progs = true, map[string]*Program{}
		for _, fn := range entries {
			ex.build(fullName(fn), fn, nil)
		}
		rnames := make([]string, 0, len(ex.progs))
		for n := range ex.progs {
			rnames = append(rnames, n)
		}
		sort.Strings(rnames)
		rlist := []*Program{}
		nacc := 0
		for _, n := range rnames {
			rlist = append(rlist, ex.progs[n])
			for _, o := range ex.progs[n].Ops {
				nacc += len(o.Acc)
			}
		}
		txt := strings.Replace(tla(rlist, true), "MODULE SodLockFacts", "MODULE SodRaceFacts", 1)
		os.WriteFile(*rout, []byte(txt), 0o644)
		fmt.Printf("extract: %d accesses to shared fields\n", nacc)
	}
	nops := 0
	for _, p := range list {
		nops += len(p.Ops)
	}
	fmt.Printf("extract: %d programs (%d entry points + goroutines), %d lock operations\n", len(list), len(entries), nops)
}

func recvNamed(fn *types.Func) *types.Named {
	sig := fn.Type().(*types.Signature)
	if sig.Recv() == nil {
		return nil
	}
	t := sig.Recv().Type()
	if p, ok := t.(*types.Pointer); ok {
		t = p.Elem()
	}
	n, _ := t.(*types.Named)
	return n
}

func fullName(fn *types.Func) string {
	if n := recvNamed(fn); n != nil {
		return n.Obj().Name() + "." + fn.Name()
	}
	return fn.Name()
}

// build creates the program of an entry point (or of a goroutine body).
func (ex *extractor) build(name string, fn *types.Func, lit *ast.FuncLit) *Program {
	p := &Program{Name: name, Ops: []LockOp{}, Eps: [][2]int{}, Spawn: []string{}}
	ex.progs[name] = p
	b := &builder{ex: ex, p: p}
	fr := &frame{env: map[types.Object]string{}}
	if fn != nil {
		fd := ex.funcs[fn]
		b.bindParams(fr, fn, fd, nil, nil)
		b.inlineBody(fr, fn, fd.Body)
	}
	return p
}

func (b *builder) pos() int {
	b.marks = append(b.marks, len(b.p.Ops)+1)
	return len(b.p.Ops) + 1
}

func (b *builder) emit(kind, m string, at token.Pos) {
	pos := b.ex.fset.Position(at)
	site := fmt.Sprintf("%s:%d", shortFile(pos.Filename), pos.Line)
	if b.inDefer > 0 {
		site = "defer"
	}
	b.p.Ops = append(b.p.Ops, LockOp{Kind: kind, M: m, Site: site})
}

// sharedTypes: the structures reachable from a handle by several goroutines
var sharedTypes = map[string]bool{"DB": true, "Schema": true, "objIndex": true, "fieldIndex": true, "objectStore": true, "objectMap": true, "Async": true}

// access emits a read or write of field sel of a shared structure (race model only).  The location is named after
// the TYPE of the structure (robust against aliasing through local names); the two object stores of a handle (cache,
// pending writes), which have locks of their own, are told apart by the instance path.
func (b *builder) access(fr *frame, sel *ast.SelectorExpr, kind string) {
	if !b.ex.acc {
		return
	}
	s := b.ex.pkg.TypesInfo.Selections[sel]
	if s == nil || s.Kind() != types.FieldVal {
		return
	}
	t := s.Recv()
	if p, ok := t.(*types.Pointer); ok {
		t = p.Elem()
	}
	n, ok := t.(*types.Named)
	if !ok || !sharedTypes[n.Obj().Name()] {
		return
	}
	if v, ok := s.Obj().(*types.Var); ok && isSyncMutex(v.Type()) {
		return
	}
	if strings.HasPrefix(b.pathOf(fr, sel.X), "!fresh") {
		return
	}
	loc := n.Obj().Name() + "." + sel.Sel.Name
	if n.Obj().Name() == "objectStore" || n.Obj().Name() == "objectMap" {
		p := b.pathOf(fr, sel.X)
		switch {
		case strings.Contains(p, "db.cache"):
			loc += "@cache"
		case strings.Contains(p, "db.asyncw"):
			loc += "@asyncw"
		}
	}
	pos := b.ex.fset.Position(sel.Pos())
	site := fmt.Sprintf("%s:%d", shortFile(pos.Filename), pos.Line)
	if len(b.path) > 0 {
		site = fullName(b.path[len(b.path)-1]) + "@" + site // the function the access is in: stable when lines move
	}
	// the accesses between two lock operations form ONE step of the race model (their order is irrelevant to it);
	// a position that is the source or target of an epsilon edge starts a new step
	k := len(b.p.Ops)
	merge := k > 0 && b.p.Ops[k-1].Kind == "acc"
	for _, e := range b.p.Eps {
		if e[0] == k+1 || e[1] == k+1 {
			merge = false
		}
	}
	for _, m := range b.marks {
		if m == k+1 {
			merge = false
		}
	}
	if !merge {
		b.p.Ops = append(b.p.Ops, LockOp{Kind: "acc"})
		k++
	}
	op := &b.p.Ops[k-1]
	for _, a := range op.Acc {
		if a[0] == kind && a[1] == loc {
			return
		}
	}
	op.Acc = append(op.Acc, [3]string{kind, loc, site})
}

// fresh: the expression yields a structure that was just allocated (composite literal, new, a constructor of this
// package: new... / empty... / make...), or is itself a fresh local
func (b *builder) fresh(fr *frame, e ast.Expr) bool {
	switch x := e.(type) {
	case *ast.CompositeLit:
		return true
	case *ast.UnaryExpr:
		return x.Op == token.AND && b.fresh(fr, x.X)
	case *ast.ParenExpr:
		return b.fresh(fr, x.X)
	case *ast.Ident:
		if obj := b.ex.pkg.TypesInfo.Uses[x]; obj != nil {
			return fr.env[obj] == "!fresh"
		}
	case *ast.CallExpr:
		if id, ok := x.Fun.(*ast.Ident); ok {
			n := strings.ToLower(id.Name)
			if n == "new" || n == "make" {
				return true
			}
			if fn, ok := b.ex.pkg.TypesInfo.Uses[id].(*types.Func); ok {
				if _, ours := b.ex.funcs[fn]; ours && (strings.HasPrefix(n, "new") || strings.HasPrefix(n, "empty") || strings.HasPrefix(n, "make")) {
					return true
				}
			}
		}
	}
	return false
}

// written emits the write of an assignment target (the container for an element) and visits the rest as reads
func (b *builder) written(fr *frame, e ast.Expr) {
	switch x := e.(type) {
	case *ast.IndexExpr:
		b.expr(fr, x.Index)
		b.written(fr, x.X)
	case *ast.ParenExpr:
		b.written(fr, x.X)
	case *ast.StarExpr:
		b.expr(fr, x.X)
	case *ast.SelectorExpr:
		b.expr(fr, x.X)
		b.access(fr, x, "wr")
	default:
		b.expr(fr, e)
	}
}

func shortFile(f string) string {
	if i := strings.LastIndex(f, "/"); i >= 0 {
		return f[i+1:]
	}
	return f
}

func (b *builder) eps(i, j int) {
	if i != j {
		b.p.Eps = append(b.p.Eps, [2]int{i, j})
	}
}

// bindParams binds the receiver and parameters of fn to instance paths of the caller's arguments.
func (b *builder) bindParams(fr *frame, fn *types.Func, fd *ast.FuncDecl, recvPath *string, args []string) {
	if fd.Recv != nil && len(fd.Recv.List) > 0 && len(fd.Recv.List[0].Names) > 0 {
		obj := b.ex.pkg.TypesInfo.Defs[fd.Recv.List[0].Names[0]]
		path := ""
		if recvPath != nil {
			path = *recvPath
		} else {
			path = b.rootPath(obj.Type(), fd.Recv.List[0].Names[0].Name)
		}
		fr.env[obj] = path
	}
	i := 0
	for _, fl := range fd.Type.Params.List {
		for _, nm := range fl.Names {
			obj := b.ex.pkg.TypesInfo.Defs[nm]
			if i < len(args) && args[i] != "" {
				fr.env[obj] = args[i]
			} else if obj != nil {
				fr.env[obj] = b.rootPath(obj.Type(), nm.Name)
			}
			i++
		}
	}
}

// rootPath names an object that is not reached through a known path.
func (b *builder) rootPath(t types.Type, name string) string {
	if b.isDB(t) {
		return "db"
	}
	return "?" + strings.TrimPrefix(types.TypeString(t, func(*types.Package) string { return "" }), "*")
}

func (b *builder) isDB(t types.Type) bool {
	if p, ok := t.(*types.Pointer); ok {
		t = p.Elem()
	}
	return b.ex.dbType != nil && types.Identical(t, b.ex.dbType)
}

// path computes the instance path of an expression.
func (b *builder) pathOf(fr *frame, e ast.Expr) string {
	info := b.ex.pkg.TypesInfo
	if tv, ok := info.Types[e]; ok && b.isDB(tv.Type) {
		return "db" // one handle
	}
	switch x := e.(type) {
	case *ast.Ident:
		if obj := info.Uses[x]; obj != nil {
			if p, ok := fr.env[obj]; ok {
				return p
			}
			return b.rootPath(obj.Type(), x.Name)
		}
	case *ast.SelectorExpr:
		return b.pathOf(fr, x.X) + "." + x.Sel.Name
	case *ast.IndexExpr:
		return b.pathOf(fr, x.X) + "[]"
	case *ast.StarExpr:
		return b.pathOf(fr, x.X)
	case *ast.UnaryExpr:
		return b.pathOf(fr, x.X)
	case *ast.ParenExpr:
		return b.pathOf(fr, x.X)
	case *ast.CallExpr:
		return "?call"
	}
	return "?"
}

func normMutex(p string) string {
	// db.cache.m[] -> db.cache.map ; embedded mutexes are named by their holder
	p = strings.ReplaceAll(p, ".m[]", ".map")
	p = strings.TrimSuffix(p, ".RWMutex")
	p = strings.TrimSuffix(p, ".Mutex")
	return p
}

func isSyncMutex(t types.Type) bool {
	if p, ok := t.(*types.Pointer); ok {
		t = p.Elem()
	}
	n, ok := t.(*types.Named)
	if !ok || n.Obj().Pkg() == nil {
		return false
	}
	pk := n.Obj().Pkg().Path()
	return (pk == "sync" || strings.HasSuffix(pk, "/vsync")) && (n.Obj().Name() == "RWMutex" || n.Obj().Name() == "Mutex")
}

var lockKinds = map[string]string{"Lock": "lock", "Unlock": "unlock", "RLock": "rlock", "RUnlock": "runlock"}

// lockCall recognises X.Lock() etc. on a sync mutex (possibly promoted through embedding).
func (b *builder) lockCall(fr *frame, call *ast.CallExpr) (kind, m string, ok bool) {
	sel, isSel := call.Fun.(*ast.SelectorExpr)
	if !isSel {
		return
	}
	kind, known := lockKinds[sel.Sel.Name]
	if !known {
		return
	}
	s := b.ex.pkg.TypesInfo.Selections[sel]
	if s == nil {
		return
	}
	fn, isFn := s.Obj().(*types.Func)
	if !isFn {
		return
	}
	rn := recvNamed(fn)
	if rn == nil || !isSyncMutex(rn) {
		return
	}
	return kind, normMutex(b.pathOf(fr, sel.X)), true
}

func (b *builder) inlineBody(fr *frame, fn *types.Func, body *ast.BlockStmt) {
	b.path = append(b.path, fn)
	start := len(fr.defers)
	retMark := len(fr.returns)
	b.block(fr, body.List)
	// the deferred calls of this function run here, last registered first; a return jumps to the
	// first deferred call that was registered before it (later registrations never happened)
	rets := append([]retPoint{}, fr.returns[retMark:]...)
	fr.returns = fr.returns[:retMark]
	for i := len(fr.defers) - 1; i >= start; i-- {
		at := b.pos()
		for _, r := range rets {
			if r.ndefers == i+1 {
				b.eps(r.pos, at)
			}
		}
		fr.defers[i]()
	}
	end := b.pos()
	for _, r := range rets {
		if r.ndefers <= start {
			b.eps(r.pos, end)
		}
	}
	fr.defers = fr.defers[:start]
	b.path = b.path[:len(b.path)-1]
}

func (b *builder) block(fr *frame, list []ast.Stmt) {
	for _, s := range list {
		b.stmt(fr, s)
	}
}

func (b *builder) optional(fr *frame, f func()) {
	a := b.pos()
	n, rm := len(fr.defers), len(fr.returns)
	f()
	if len(fr.defers) > n {
		// a defer registered inside a conditional block only runs when the block was entered.  The program is a linear
		// list of operations with skip edges, so the deferred calls are run where the block ends (they stay inside the
		// skipped region) instead of at the end of the function: the same order of lock operations whenever nothing
		// lock-relevant follows the block - the binding check (SodLockTrace) reports it otherwise.  Not done when the
		// block itself returns after registering (the return would have to run them and leave).
		hoist := true
		for k := rm; k < len(fr.returns); k++ {
			if fr.returns[k].ndefers > n {
				hoist = false
			}
		}
		if hoist {
			for i := len(fr.defers) - 1; i >= n; i-- {
				fr.defers[i]()
			}
			fr.defers = fr.defers[:n]
		}
	}
	b.eps(a, b.pos())
}

func (b *builder) stmt(fr *frame, s ast.Stmt) {
	switch x := s.(type) {
	case nil:
	case *ast.ExprStmt:
		b.expr(fr, x.X)
	case *ast.AssignStmt:
		for _, e := range x.Rhs {
			b.expr(fr, e)
		}
		for _, e := range x.Lhs {
			b.written(fr, e)
		}
		// a local name for something reachable from the handle keeps its instance path
		if len(x.Rhs) == 1 && len(x.Lhs) >= 1 {
			if id, ok := x.Lhs[0].(*ast.Ident); ok {
				obj := b.ex.pkg.TypesInfo.Defs[id]
				if obj == nil {
					obj = b.ex.pkg.TypesInfo.Uses[id]
				}
				if p := b.pathOf(fr, x.Rhs[0]); obj != nil && !strings.HasPrefix(p, "?") && strings.HasPrefix(p, "db") {
					fr.env[obj] = p
				} else if obj != nil && b.fresh(fr, x.Rhs[0]) {
					// a structure allocated here and not published yet: nobody else can reach it
					fr.env[obj] = "!fresh"
				}
			}
		}
	case *ast.DeclStmt:
		if gd, ok := x.Decl.(*ast.GenDecl); ok {
			for _, sp := range gd.Specs {
				if vs, ok := sp.(*ast.ValueSpec); ok {
					for i, e := range vs.Values {
						b.expr(fr, e)
						if i < len(vs.Names) && b.fresh(fr, e) {
							if obj := b.ex.pkg.TypesInfo.Defs[vs.Names[i]]; obj != nil {
								fr.env[obj] = "!fresh"
							}
						}
					}
				}
			}
		}
	case *ast.ReturnStmt:
		for _, e := range x.Results {
			b.expr(fr, e)
		}
		fr.returns = append(fr.returns, retPoint{b.pos(), len(fr.defers)})
	case *ast.DeferStmt:
		call := x.Call
		frc := fr
		fr.defers = append(fr.defers, func() {
			if lit, ok := call.Fun.(*ast.FuncLit); ok {
				b.block(frc, lit.Body.List)
				return
			}
			// a directly deferred lock operation is reported by the runtime at the returning line
			if _, _, isLock := b.lockCall(frc, call); isLock {
				b.inDefer++
				b.call(frc, call)
				b.inDefer--
				return
			}
			b.call(frc, call)
		})
		for _, a := range call.Args {
			b.expr(fr, a)
		}
	case *ast.GoStmt:
		gp := b.ex.fset.Position(x.Pos())
		name := fmt.Sprintf("go@%s:%d", shortFile(gp.Filename), gp.Line)
		dup := false
		for _, s := range b.p.Spawn {
			dup = dup || s == name
		}
		if !dup {
			b.p.Spawn = append(b.p.Spawn, name)
		}
		if _, seen := b.ex.progs[name]; !seen {
			gpr := &Program{Name: name, Ops: []LockOp{}, Eps: [][2]int{}, Spawn: []string{}}
			b.ex.progs[name] = gpr
			// a goroutine starts with an empty call stack: the functions being inlined at the go statement
			// are not "in progress" for it (it may call them itself)
			gb := &builder{ex: b.ex, p: gpr, path: []*types.Func{b.path[len(b.path)-1]}}
			gfr := &frame{env: fr.env}
			if lit, ok := x.Call.Fun.(*ast.FuncLit); ok {
				gb.block(gfr, lit.Body.List)
				for i := len(gfr.defers) - 1; i >= 0; i-- {
					gfr.defers[i]()
				}
			} else {
				gb.call(gfr, x.Call)
			}
		}
	case *ast.IfStmt:
		b.stmt(fr, x.Init)
		b.expr(fr, x.Cond)
		b.optional(fr, func() { b.block(fr, x.Body.List) })
		if x.Else != nil {
			b.optional(fr, func() { b.stmt(fr, x.Else) })
		}
	case *ast.BlockStmt:
		b.block(fr, x.List)
	case *ast.ForStmt:
		b.stmt(fr, x.Init)
		a := b.pos()
		b.expr(fr, x.Cond)
		b.block(fr, x.Body.List)
		b.stmt(fr, x.Post)
		b.eps(b.pos(), a) // repeat
		b.eps(a, b.pos()) // or skip
	case *ast.RangeStmt:
		b.expr(fr, x.X)
		if tv, ok := b.ex.pkg.TypesInfo.Types[x.X]; ok && tv.Type != nil {
			if _, isChan := tv.Type.Underlying().(*types.Chan); isChan {
				// ranging over a channel waits for whoever feeds it: a blocking step (SodLock: NoWaitUnderLock)
				b.emit("recv", "chan", x.Pos())
			}
		}
		a := b.pos()
		b.block(fr, x.Body.List)
		b.eps(b.pos(), a)
		b.eps(a, b.pos())
	case *ast.SwitchStmt:
		b.stmt(fr, x.Init)
		b.expr(fr, x.Tag)
		for _, c := range x.Body.List {
			cc := c.(*ast.CaseClause)
			for _, e := range cc.List {
				b.expr(fr, e)
			}
			b.optional(fr, func() { b.block(fr, cc.Body) })
		}
	case *ast.TypeSwitchStmt:
		b.stmt(fr, x.Init)
		b.stmt(fr, x.Assign)
		for _, c := range x.Body.List {
			cc := c.(*ast.CaseClause)
			b.optional(fr, func() { b.block(fr, cc.Body) })
		}
	case *ast.SelectStmt:
		for _, c := range x.Body.List {
			cc := c.(*ast.CommClause)
			b.optional(fr, func() { b.stmt(fr, cc.Comm); b.block(fr, cc.Body) })
		}
	case *ast.LabeledStmt:
		b.stmt(fr, x.Stmt)
	case *ast.SendStmt:
		b.expr(fr, x.Chan)
		b.expr(fr, x.Value)
	case *ast.IncDecStmt:
		b.written(fr, x.X)
	case *ast.BranchStmt, *ast.EmptyStmt:
	}
}

// expr visits the calls of an expression in evaluation order.
func (b *builder) expr(fr *frame, e ast.Expr) {
	if e == nil {
		return
	}
	ast.Inspect(e, func(n ast.Node) bool {
		switch x := n.(type) {
		case *ast.FuncLit:
			return false // a closure that is only created, not called here
		case *ast.UnaryExpr:
			if x.Op == token.ARROW {
				b.expr(fr, x.X)
				b.emit("recv", "chan", x.Pos()) // a channel receive: a blocking step
				return false
			}
		case *ast.SelectorExpr:
			b.expr(fr, x.X)
			b.access(fr, x, "rd")
			return false
		case *ast.CallExpr:
			if id, ok := x.Fun.(*ast.Ident); ok && id.Name == "delete" && len(x.Args) == 2 {
				// delete(m, k) writes the map
				b.expr(fr, x.Args[1])
				b.written(fr, x.Args[0])
				return false
			}
			// arguments first
			for _, a := range x.Args {
				b.expr(fr, a)
			}
			if sel, ok := x.Fun.(*ast.SelectorExpr); ok {
				b.expr(fr, sel.X)
			}
			b.call(fr, x)
			return false
		}
		return true
	})
}

func (b *builder) call(fr *frame, call *ast.CallExpr) {
	if kind, m, ok := b.lockCall(fr, call); ok {
		b.emit(kind, m, call.Pos())
		return
	}
	info := b.ex.pkg.TypesInfo
	var fn *types.Func
	var recvPath *string
	switch f := call.Fun.(type) {
	case *ast.Ident:
		fn, _ = info.Uses[f].(*types.Func)
	case *ast.SelectorExpr:
		if s := info.Selections[f]; s != nil {
			fn, _ = s.Obj().(*types.Func)
			p := b.pathOf(fr, f.X)
			// promoted methods: the receiver is the embedded field
			if len(s.Index()) > 1 {
				p = p + "." + embeddedName(s)
			}
			recvPath = &p
		} else {
			fn, _ = info.Uses[f.Sel].(*types.Func)
		}
	case *ast.FuncLit:
		b.block(fr, f.Body.List) // immediately invoked closure
		return
	}
	if fn == nil {
		return
	}
	fd, ours := b.ex.funcs[fn]
	if !ours {
		return // another package, or an interface method (user hooks)
	}
	for _, on := range b.path {
		if on == fn {
			return // recursion
		}
	}
	if len(b.path) > 40 {
		return
	}
	args := make([]string, len(call.Args))
	for i, a := range call.Args {
		args[i] = b.pathOf(fr, a)
		if strings.HasPrefix(args[i], "?") {
			args[i] = ""
		}
	}
	nfr := &frame{env: map[types.Object]string{}}
	b.bindParams(nfr, fn, fd, recvPath, args)
	b.inlineBody(nfr, fn, fd.Body)
}

func embeddedName(s *types.Selection) string {
	t := s.Recv()
	if p, ok := t.(*types.Pointer); ok {
		t = p.Elem()
	}
	st, ok := t.Underlying().(*types.Struct)
	if !ok || len(s.Index()) == 0 {
		return "?"
	}
	return st.Field(s.Index()[0]).Name()
}

func tlaStr(s string) string { return `"` + strings.ReplaceAll(s, `"`, `'`) + `"` }

func tla(list []*Program, race bool) string {
	var sb strings.Builder
	sb.WriteString("---------------------------- MODULE SodLockFacts ----------------------------\n")
	sb.WriteString("(* GENERATED by /verif/tools/extract from the current source of the sod package. *)\n")
	sb.WriteString("(* One program per exported entry point and per spawned goroutine: lock operations *)\n")
	sb.WriteString("(* in source order after inlining, with epsilon edges for skipped / repeated blocks. *)\n")
	sb.WriteString("EXTENDS Integers, Sequences\n\n")
	mut := map[string]bool{}
	sb.WriteString("Programs == [\n")
	for i, p := range list {
		ops := []string{}
		for _, o := range p.Ops {
			if o.Kind != "acc" && o.Kind != "recv" {
				mut[o.M] = true
			}
			if race {
				as := []string{}
				for _, a := range o.Acc {
					as = append(as, fmt.Sprintf("<<%s, %s, %s>>", tlaStr(a[0]), tlaStr(a[1]), tlaStr(a[2])))
				}
				ops = append(ops, fmt.Sprintf("[k |-> %s, m |-> %s, site |-> %s, a |-> {%s}]", tlaStr(o.Kind), tlaStr(o.M), tlaStr(o.Site), strings.Join(as, ", ")))
				continue
			}
			ops = append(ops, fmt.Sprintf("[k |-> %s, m |-> %s, site |-> %s]", tlaStr(o.Kind), tlaStr(o.M), tlaStr(o.Site)))
		}
		eps := []string{}
		for _, e := range p.Eps {
			eps = append(eps, fmt.Sprintf("<<%d, %d>>", e[0], e[1]))
		}
		sp := []string{}
		for _, s := range p.Spawn {
			sp = append(sp, tlaStr(s))
		}
		sep := ","
		if i == len(list)-1 {
			sep = ""
		}
		fmt.Fprintf(&sb, "  %s |-> [ops |-> <<%s>>, eps |-> {%s}, spawn |-> {%s}]%s\n", tlaField(p.Name), strings.Join(ops, ", "), strings.Join(eps, ", "), strings.Join(sp, ", "), sep)
	}
	sb.WriteString("]\n\n")
	ms := []string{}
	for m := range mut {
		ms = append(ms, tlaStr(m))
	}
	sort.Strings(ms)
	fmt.Fprintf(&sb, "Mutexes == {%s}\n", strings.Join(ms, ", "))
	names := []string{}
	withOps := []string{}
	for _, p := range list {
		names = append(names, tlaStr(tlaField(p.Name)))
		if len(p.Ops) > 0 && !strings.HasPrefix(p.Name, "go@") {
			withOps = append(withOps, tlaStr(tlaField(p.Name)))
		}
	}
	fmt.Fprintf(&sb, "ProgramNames == {%s}\n", strings.Join(names, ", "))
	fmt.Fprintf(&sb, "LockingEntries == {%s}\n", strings.Join(withOps, ", "))
	gos := []string{}
	for _, p := range list {
		if strings.HasPrefix(p.Name, "go@") {
			gos = append(gos, tlaStr(tlaField(p.Name)))
		}
	}
	fmt.Fprintf(&sb, "GoroutinePrograms == {%s}\n", strings.Join(gos, ", "))
	sb.WriteString("ProgramOf(n) == Programs[n]\n")
	sb.WriteString("=============================================================================\n")
	return sb.String()
}

// record field names must be identifiers: entry names are mapped to strings via a function instead
func tlaField(name string) string {
	r := strings.NewReplacer(".", "_", "#", "_", "@", "_at_", "*", "", "(", "", ")", "", ":", "_")
	return r.Replace(name)
}
