#!/usr/bin/env python3
"""Build the golden corpus of C18: database directories written by the PINNED release (e481c06) of sod.

The harness is built against a scratch worktree of the pinned commit (same driver, pinned package), runs
deterministic histories under 16 storage configurations with -keep, and every kept trace is validated by TLC
(only directories whose WRITES the pinned release acknowledged correctly are kept: the abstract state is rebuilt from
the acknowledged writes; what the pinned release reported when reading is not replayed).  Run once; the result is committed under /verif/golden.  A directory in which the pinned release itself left an
index that disagrees with its files (its known defects: a rejected write that stays indexed, ...) is not a valid
database and must be removed from the corpus by hand after the first adoption run (g13 and g15 were).  Nothing here runs during a check.
"""
import json, os, random, shutil, subprocess, sys
sys.path.insert(0, os.path.dirname(os.path.dirname(os.path.abspath(__file__))))
import glob, gzip
PIN = "e481c06"


def inconsistent(d):
    """Independent check of a directory the pinned release wrote: does the index serialised in schema.json describe the
    object files?  (The pinned release rounds 64-bit values through float64 when it reloads its index and keeps rejected
    writes indexed - its defects F04 / F14 - so some of its own directories are not valid databases.)"""
    def load(p):
        return json.loads(gzip.open(p).read()) if p.endswith(".gz") else json.load(open(p))
    bad = []
    for c in glob.glob(d + "/db/*"):
        s = json.load(open(c + "/schema.json"))
        ids = s["index"]["object-ids"]
        objs = {os.path.basename(f).split(".")[0]: load(f) for f in glob.glob(c + "/*") if os.path.basename(f) != "schema.json"}
        if set(ids.values()) != set(objs):
            bad.append(("ids",))
        for fn, fi in s["index"]["fields"].items():
            if fn == "T":
                continue
            for v, oid in fi["index"]:
                o = objs.get(ids.get(str(oid)))
                path = fn.split(".")
                for k in (path[1:] if path[0] == "Emb" else path):
                    o = o.get(k) if isinstance(o, dict) else None
                if o is None and (fn.startswith("P.") or fn == "O"):
                    continue                       # nil pointer / omitted zero value
                if o != v:
                    bad.append((fn, oid, v, o))
    return bad
wt = "/tmp/golden-pinned"
subprocess.run(["git", "-C", "/repo", "worktree", "remove", "--force", wt], capture_output=True)
subprocess.run(["git", "-C", "/repo", "worktree", "add", "-q", "--detach", wt, PIN], check=True)
os.environ["VERIF_REPO"] = wt
from lib import vlib, gen
vlib.REPO = wt
try:
    binp = vlib.build()
    uni = gen.universe(binp)
    out = os.path.join(vlib.VERIF, "golden")
    shutil.rmtree(out, ignore_errors=True)
    os.makedirs(out)
    tests = []
    rng = random.Random(20260926)
    k = 0
    for cache in (False, True):
        for asyn in (False, True):
            for st in range(8):
                storage = (k * 3 + st) % len(gen.STORAGE)
                t = gen.random_test(uni, rng, k, nops=18, nslots=6, p_reopen=0.08, p_query=0.0, cfgs=[(cache, asyn)], pal=k % len(gen.PALETTES), max_chain=1)
                t["cfg"] = gen.make_cfg(cache, asyn, storage)
                t["id"] = "g%02d" % k
                tests.append(t)
                k += 1
    w = "/dev/shm/mkgolden"
    shutil.rmtree(w, ignore_errors=True)
    os.makedirs(w)
    vlib.write_ndjson(w + "/tests.ndjson", tests)
    subprocess.run([binp, "run", "-tests", w + "/tests.ndjson", "-out", w + "/trace.ndjson", "-work", w, "-keep", out], check=True)
    kept = 0
    for t in tests:
        d = os.path.join(out, t["id"])
        tp = os.path.join(d, "trace.ndjson")
        f, _, _, _ = vlib.validate_trace(tp, ["NoPanic", "Conf_C03", "Conf_C07", "Conf_C15", "Conf_C02D"], w + "/val-" + t["id"])
        if f:
            print("dropped", t["id"], f[0].invariant)
            shutil.rmtree(d)
            continue
        json.dump(t, open(os.path.join(d, "test.json"), "w"))
        kept += 1
    for t in tests:
        d = os.path.join(out, t["id"])
        if os.path.isdir(d):
            bad = inconsistent(d)
            # a call the pinned release answered with an unclassified error (its own reload failing on its own index, F04):
            # the abstract state cannot be rebuilt from what it acknowledged
            if not bad and any('"c":"other"' in l for l in open(os.path.join(d, "trace.ndjson")) if l.startswith('{"c"') or '"ev":"put"' in l or '"ev":"del"' in l or '"ev":"many"' in l):
                bad = [("unclassified answer of the pinned release in the recorded history",)]
            if bad:
                print("dropped", t["id"], "index of the pinned release disagrees with its files:", bad[:2])
                shutil.rmtree(d)
                kept -= 1
    # directory names of collections whose type names stress the snake-case conversion, as the pinned release names them
    subprocess.run([binp, "names", "-out", os.path.join(out, "names.json"), "-work", w], check=True)
    print("golden corpus: %d directories kept of %d" % (kept, len(tests)))
    shutil.rmtree(w, ignore_errors=True)
finally:
    subprocess.run(["git", "-C", "/repo", "worktree", "remove", "--force", wt], capture_output=True)
