#!/usr/bin/env python3
"""Build the golden corpus of C18: database directories written by the PINNED release (e481c06) of sod.

The harness is built against a scratch worktree of the pinned commit (same driver, pinned package), runs
deterministic histories under 16 storage configurations with -keep, and every kept trace is validated by TLC
(only directories whose WRITES the pinned release acknowledged correctly are kept: the abstract state is rebuilt from
the acknowledged writes; what the pinned release reported when reading is not replayed).  Run once; the result is committed under /verif/golden.  A directory in which the pinned release itself left an
index that disagrees with its files (its known defects: a rejected write that stays indexed, ...) is not a valid
database and must be removed from the corpus by hand after the first adoption run (g13 and g15 were).  Nothing here runs during a check.
"""
import json, os, random, shutil, subprocess, sys
sys.path.insert(0, os.path.dirname(os.path.dirname(os.path.abspath(__file__))))
import glob, gzip
PIN = "e481c06"


def inconsistent(d):
    """Independent check of a directory the pinned release wrote: does the index serialised in schema.json describe the
    object files?  (The pinned release rounds 64-bit values through float64 when it reloads its index and keeps rejected
    writes indexed - its defects F04 / F14 - so some of its own directories are not valid databases.)"""
    def load(p):
        return json.loads(gzip.open(p).read()) if p.endswith(".gz") else json.load(open(p))
    bad = []
    for c in glob.glob(d + "/db/*"):
        s = json.load(open(c + "/schema.json"))
        ids = s["index"]["object-ids"]
        objs = {os.path.basename(f).split(".")[0]: load(f) for f in glob.glob(c + "/*") if os.path.basename(f) != "schema.json"}
        if set(ids.values()) != set(objs):
            bad.append(("ids",))
        for fn, fi in s["index"]["fields"].items():
            if fn == "T":
                # time keys are nanoseconds since the epoch: a directory in which the pinned release wrote keys it had
                # rounded through float64 (F04, after its own reload) is not a valid database either
                import calendar, re as _re, time as _time
                for v, oid in fi["index"]:
                    o = objs.get(ids.get(str(oid)))
                    ts = o.get("T") if isinstance(o, dict) else None
                    m = _re.match(r"(\d{4}-\d\d-\d\dT\d\d:\d\d:\d\d)(?:\.(\d+))?Z$", ts or "")
                    if not m:
                        bad.append(("T", oid, v, ts))
                        continue
                    y = int(m.group(1)[:4])
                    # (calendar.timegm handles years before 1970; 1700 and 2261 are in the universe)
                    secs = calendar.timegm(_time.strptime(m.group(1), "%Y-%m-%dT%H:%M:%S"))
                    ns = secs * 10**9 + int((m.group(2) or "0").ljust(9, "0"))
                    if ns != v:
                        bad.append(("T", oid, v, ns))
                continue
            for v, oid in fi["index"]:
                o = objs.get(ids.get(str(oid)))
                path = fn.split(".")
                for k in (path[1:] if path[0] == "Emb" else path):
                    o = o.get(k) if isinstance(o, dict) else None
                if o is None and (fn.startswith("P.") or fn == "O"):
                    continue                       # nil pointer / omitted zero value
                if fn == "Y" and o is not None:
                    import struct
                    o = struct.unpack("f", struct.pack("f", o))[0]      # single precision: the index key is the exact double of the float32
                if o != v:
                    bad.append((fn, oid, v, o))
    return bad
wt = "/tmp/golden-pinned"
subprocess.run(["git", "-C", "/repo", "worktree", "remove", "--force", wt], capture_output=True)
subprocess.run(["git", "-C", "/repo", "worktree", "add", "-q", "--detach", wt, PIN], check=True)
os.environ["VERIF_REPO"] = wt
from lib import vlib, gen
vlib.REPO = wt
try:
    binp = vlib.build()
    uni = gen.universe(binp)
    out = os.path.join(vlib.VERIF, "golden")
    shutil.rmtree(out, ignore_errors=True)
    os.makedirs(out)
    tests = []
    rng = random.Random(20260926)
    k = 0
    for cache in (False, True):
        for asyn in (False, True):
            for st in range(8):
                storage = (k * 3 + st) % len(gen.STORAGE)
                # every second directory has the single-precision field among the three it varies (index keys of inexact values)
                flds = (rng.sample([f for f in gen.IDX_FIELDS if f != "Y"], 2) + ["Y"]) if k % 2 else None
                t = gen.random_test(uni, rng, k, nops=18, nslots=6, p_reopen=0.08, p_query=0.0, cfgs=[(cache, asyn)], pal=k % len(gen.PALETTES), max_chain=1, fields=flds)
                t["cfg"] = gen.make_cfg(cache, asyn, storage)
                t["id"] = "g%02d" % k
                tests.append(t)
                k += 1
    w = "/dev/shm/mkgolden"
    shutil.rmtree(w, ignore_errors=True)
    os.makedirs(w)
    vlib.write_ndjson(w + "/tests.ndjson", tests)
    subprocess.run([binp, "run", "-tests", w + "/tests.ndjson", "-out", w + "/trace.ndjson", "-work", w, "-keep", out], check=True)
    kept = 0
    for t in tests:
        d = os.path.join(out, t["id"])
        tp = os.path.join(d, "trace.ndjson")
        f, _, _, _ = vlib.validate_trace(tp, ["NoPanic", "Conf_C03", "Conf_C07", "Conf_C15", "Conf_C02D"], w + "/val-" + t["id"])
        if f:
            print("dropped", t["id"], f[0].invariant)
            shutil.rmtree(d)
            continue
        json.dump(t, open(os.path.join(d, "test.json"), "w"))
        kept += 1
    for t in tests:
        d = os.path.join(out, t["id"])
        if os.path.isdir(d):
            bad = inconsistent(d)
            # a call the pinned release answered with an unclassified error (its own reload failing on its own index, F04):
            # the abstract state cannot be rebuilt from what it acknowledged
            if not bad and any('"c":"other"' in l for l in open(os.path.join(d, "trace.ndjson")) if l.startswith('{"c"') or '"ev":"put"' in l or '"ev":"del"' in l or '"ev":"many"' in l):
                bad = [("unclassified answer of the pinned release in the recorded history",)]
            if bad:
                print("dropped", t["id"], "index of the pinned release disagrees with its files:", bad[:2])
                shutil.rmtree(d)
                kept -= 1
    # directory names of collections whose type names stress the snake-case conversion, as the pinned release names them
    subprocess.run([binp, "names", "-out", os.path.join(out, "names.json"), "-work", w], check=True)
    print("golden corpus: %d directories kept of %d" % (kept, len(tests)))
    shutil.rmtree(w, ignore_errors=True)
finally:
    subprocess.run(["git", "-C", "/repo", "worktree", "remove", "--force", wt], capture_output=True)
