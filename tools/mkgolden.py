#!/usr/bin/env python3
"""Build the golden corpus of C18: database directories written by the PINNED release (e481c06) of sod.

The harness is built against a scratch worktree of the pinned commit (same driver, pinned package), runs
deterministic histories under 16 storage configurations with -keep, and every kept trace is validated by TLC
(only directories whose WRITES the pinned release acknowledged correctly are kept: the abstract state is rebuilt from
the acknowledged writes; what the pinned release reported when reading is not replayed).  Run once; the result is committed under /verif/golden.  A directory in which the pinned release itself left an
index that disagrees with its files (its known defects: a rejected write that stays indexed, ...) is not a valid
database and must be removed from the corpus by hand after the first adoption run (g13 and g15 were).  Nothing here runs during a check.
"""
import json, os, random, shutil, subprocess, sys
sys.path.insert(0, os.path.dirname(os.path.dirname(os.path.abspath(__file__))))
PIN = "e481c06"
wt = "/tmp/golden-pinned"
subprocess.run(["git", "-C", "/repo", "worktree", "remove", "--force", wt], capture_output=True)
subprocess.run(["git", "-C", "/repo", "worktree", "add", "-q", "--detach", wt, PIN], check=True)
os.environ["VERIF_REPO"] = wt
from lib import vlib, gen
vlib.REPO = wt
try:
    binp = vlib.build()
    uni = gen.universe(binp)
    out = os.path.join(vlib.VERIF, "golden")
    shutil.rmtree(out, ignore_errors=True)
    os.makedirs(out)
    tests = []
    rng = random.Random(20260926)
    k = 0
    for cache in (False, True):
        for asyn in (False, True):
            for st in range(4):
                storage = (k * 3 + st) % len(gen.STORAGE)
                t = gen.random_test(uni, rng, k, nops=18, nslots=6, p_reopen=0.08, p_query=0.0, cfgs=[(cache, asyn)], pal=k % len(gen.PALETTES), max_chain=1)
                t["cfg"] = gen.make_cfg(cache, asyn, storage)
                t["id"] = "g%02d" % k
                tests.append(t)
                k += 1
    w = "/dev/shm/mkgolden"
    shutil.rmtree(w, ignore_errors=True)
    os.makedirs(w)
    vlib.write_ndjson(w + "/tests.ndjson", tests)
    subprocess.run([binp, "run", "-tests", w + "/tests.ndjson", "-out", w + "/trace.ndjson", "-work", w, "-keep", out], check=True)
    kept = 0
    for t in tests:
        d = os.path.join(out, t["id"])
        tp = os.path.join(d, "trace.ndjson")
        f, _, _, _ = vlib.validate_trace(tp, ["NoPanic", "Conf_C03", "Conf_C07", "Conf_C15"], w + "/val-" + t["id"])
        if f:
            print("dropped", t["id"], f[0].invariant)
            shutil.rmtree(d)
            continue
        json.dump(t, open(os.path.join(d, "test.json"), "w"))
        kept += 1
    for bad in ("g13", "g15"):
        shutil.rmtree(os.path.join(out, bad), ignore_errors=True)   # inconsistent as written by the pinned release (see above)
    # directory names of collections whose type names stress the snake-case conversion, as the pinned release names them
    subprocess.run([binp, "names", "-out", os.path.join(out, "names.json"), "-work", w], check=True)
    print("golden corpus: %d directories kept of %d" % (kept, len(tests)))
    shutil.rmtree(w, ignore_errors=True)
finally:
    subprocess.run(["git", "-C", "/repo", "worktree", "remove", "--force", wt], capture_output=True)
