#!/usr/bin/env python3
"""Debug aid: re-execute the test of a replay record and evaluate named sub-expressions of the trace specification at the
rejected event (temporary definitions appended to a scratch copy of SodTrace; nothing under /verif/spec is modified).
usage: dbgconj.py <replay.json> [dev,dev...] <<< 'Name == expr' lines on stdin (use DbgE for the event, DbgO(n) for obs n with recs)"""
import sys, json, os, shutil
sys.path.insert(0, os.path.dirname(os.path.dirname(os.path.abspath(__file__))))
from lib import vlib
d = json.load(open(sys.argv[1]))
dev = tuple(x for x in (sys.argv[2].split(",") if len(sys.argv) > 2 else []) if x)
defs = [l for l in sys.stdin.read().splitlines() if l.strip()]
w = vlib.Work("dbg"); w.__enter__()
if os.environ.get("DBG_RERUN") or not d.get("trace"):
    sh = vlib.run_harness(vlib.build(), [d["test"]], w.sub("run"), shards=1)
    tp = sh[0][1]
else:
    # the RECORDED trace (re-executions differ: map iteration order decides e.g. which pending object is flushed first)
    tp = w.path("recorded.ndjson")
    with open(tp, "w") as f:
        for l in d["trace"]:
            f.write((l if isinstance(l, str) else json.dumps(l, separators=(",", ":"))).rstrip("\n") + "\n")

L = d["event_index"] + 2
names = []
extra = ["", "DbgE == Trace[l-1]", "DbgO(n) == WithRecs(IF n = 0 THEN DbgE.obs0 ELSE IF n = 1 THEN DbgE.obs1 ELSE IF n = 2 THEN DbgE.obs2 ELSE DbgE.obs3, DbgE.recs)", "DbgAt == l = %d" % L]
for i, line in enumerate(defs):
    name, expr = line.split("==", 1)
    names.append(name.strip())
    extra.append("DbgX%d == DbgAt => (%s)" % (i, expr.strip()))
spec = open(os.path.join(vlib.SPEC, "SodTrace.tla")).read().replace("\n=====", "\n".join(extra) + "\n=====", 1)
orig = vlib.SPEC
tmp = w.sub("spec")
for f in os.listdir(orig):
    if f.endswith(".tla"):
        shutil.copy(os.path.join(orig, f), tmp)
open(os.path.join(tmp, "SodTrace.tla"), "w").write(spec)
vlib.SPEC = tmp
for i, n in enumerate(names):
    f, _, _, _ = vlib.validate_trace(tp, ["DbgX%d" % i], w.sub("d%d" % i), dev=dev)
    print("%-12s %s" % (n, "FALSE" if f else "true"))
    if f and os.environ.get("DBG_V"):
        print("   ", f[0].invariant, f[0].event_index, (f[0].tlc_tail or "")[-900:])
