#!/usr/bin/env python3
"""Confirm a seeded change and run a check against it.

usage: seedcheck.py <name> <outdir-of-agent> <property> [check ...]

1. scratch worktree of /repo HEAD under /tmp (removed at the end);
2. demo passes without the patch, fails with it; the repository's own suite passes with it;
3. each listed check (default: the property's quick check) is run with VERIF_REPO pointing at the patched worktree;
4. the change is stored as /verif/seeded/<name>/{patch.diff, demo_test.go, meta.json}.
"""
import json, os, shutil, subprocess, sys, time

VERIF = os.path.dirname(os.path.dirname(os.path.abspath(__file__)))
ENV = dict(os.environ, GOFLAGS="-mod=mod", GOPROXY="off", GOSUMDB="off", GOTOOLCHAIN="local")


def run(cmd, cwd=None, env=ENV, timeout=1800):
    p = subprocess.run(cmd, cwd=cwd, env=env, stdout=subprocess.PIPE, stderr=subprocess.STDOUT, text=True, timeout=timeout)
    return p.returncode, p.stdout


def main():
    name, out, prop = sys.argv[1], sys.argv[2], sys.argv[3]
    checks = sys.argv[4:] or [prop]
    tiers = os.environ.get("SEED_TIER", "quick")
    wt = "/tmp/sc-" + name
    subprocess.run(["git", "-C", "/repo", "worktree", "remove", "--force", wt], stdout=subprocess.DEVNULL, stderr=subprocess.DEVNULL)
    rc, o = run(["git", "-C", "/repo", "worktree", "add", "-q", "--detach", wt, "HEAD"])
    assert rc == 0, o
    res = {"name": name, "property": prop}
    try:
        demo = os.path.join(out, "demo_test.go")
        patch = os.path.join(out, "patch.diff")
        shutil.copy(demo, os.path.join(wt, "zz_seeded_demo_test.go"))
        rc, o = run(["go", "test", "-vet=off", "-count=1", "-run", "TestSeeded", "."], cwd=wt)
        res["demo_without_patch"] = "pass" if rc == 0 else "FAIL"
        rc, o = run(["git", "apply", "--whitespace=nowarn", patch], cwd=wt)
        if rc != 0:
            rc, o = run(["git", "apply", "-3", "--whitespace=nowarn", patch], cwd=wt)
        res["patch_applies"] = rc == 0
        if rc != 0:
            res["apply_output"] = o[-500:]
        rc, o = run(["go", "test", "-vet=off", "-count=1", "-run", "TestSeeded", "."], cwd=wt)
        res["demo_with_patch"] = "fail" if rc != 0 else "PASS(!)"
        os.remove(os.path.join(wt, "zz_seeded_demo_test.go"))
        if not os.environ.get("SEED_SKIP_SUITE"):
            rc, o = run(["go", "test", "-vet=off", "-count=1", "-timeout", "25m", "."], cwd=wt)
            if rc != 0:      # one retry: TestIndexAllTypes is randomly flaky on the unmodified tree too
                rc, o = run(["go", "test", "-vet=off", "-count=1", "-timeout", "25m", "."], cwd=wt)
            res["suite_with_patch"] = "pass" if rc == 0 else "FAIL: " + o[-300:]
        shutil.rmtree(os.path.join(wt, "data"), ignore_errors=True)
        res["checks"] = {}
        for c in checks:
            t0 = time.time()
            rc, o = run([os.path.join(VERIF, "verif"), "check", c, "--tier", tiers], cwd=VERIF, env=dict(ENV, VERIF_REPO=wt, VERIF_SEED=os.environ.get("VERIF_SEED", "1")))
            viol = [l for l in o.splitlines() if l.startswith("VIOLATION")]
            res["checks"][c] = {"exit": rc, "violations": len(viol), "wall_s": round(time.time() - t0, 1), "tail": o.splitlines()[-1:] }
        d = os.path.join(VERIF, "seeded", name)
        os.makedirs(d, exist_ok=True)
        shutil.copy(patch, os.path.join(d, "patch.diff"))
        shutil.copy(demo, os.path.join(d, "demo_test.go"))
        meta = {}
        try:
            meta = json.load(open(os.path.join(out, "meta.json")))
        except Exception:
            pass
        meta_out = {"property": prop, "summary": meta.get("summary"), "needs": meta.get("needs"), "author_verified": meta.get("verified"),
                    "confirmed_here": {k: res.get(k) for k in ("demo_without_patch", "demo_with_patch", "suite_with_patch", "patch_applies")},
                    "base_commit": subprocess.run(["git", "-C", "/repo", "rev-parse", "--short", "HEAD"], stdout=subprocess.PIPE, text=True).stdout.strip(),
                    "checks_run": res["checks"],
                    "how": "tools/seedcheck.py: scratch worktree of /repo HEAD, demo before/after patch, repository suite with patch, ./verif check <id> with VERIF_REPO=<patched worktree>"}
        json.dump(meta_out, open(os.path.join(d, "meta.json"), "w"), indent=1)
    finally:
        subprocess.run(["git", "-C", "/repo", "worktree", "remove", "--force", wt], stdout=subprocess.DEVNULL, stderr=subprocess.DEVNULL)
        # the replays of a seeded run are not kept
    print(json.dumps(res, indent=1))


if __name__ == "__main__":
    main()
