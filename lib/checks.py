"""Per-property checks.  Each check generates tests from the specification
(TLC-enumerated transitions of SodImpl and seeded random histories), executes
them on the real code built from /repo's working tree, and lets TLC validate
the recorded traces against SodTrace with the property's invariant."""
import json, os, random, re, subprocess, time, hashlib
from . import vlib, gen
from .vlib import log

KNOWN = os.path.join(vlib.VERIF, "known_findings.json")


def load_known():
    if os.path.exists(KNOWN):
        with open(KNOWN) as f:
            return json.load(f)
    return {"findings": []}


class Ctx:
    def __init__(self, pid, tier, seed):
        self.pid, self.tier, self.seed = pid, tier, seed
        self.quick = tier == "quick"
        self.t0 = time.time()
        self.rng = random.Random(seed * 1000003 + int(hashlib.sha256(pid.encode()).hexdigest()[:6], 16))
        self.mc_states = 0
        self.mc_transitions = 0
        self.trace_states = 0
        self.tests = 0
        self.events = 0
        self.nontrivial = set()
        self.samples = []
        self.failures = []        # (kind, description, replay)
        self.known_hits = {}
        self.notes = []
        self.extra_cov = {}
        self.assumptions = []
        self.level = "model_checking"
        self.rule = ""
        self.exhaustive = False

    def q(self, quick, thorough):
        return quick if self.quick else thorough


# --------------------------------------------------------------------------- generic sequential pipeline

def seq_pipeline(ctx, w, tests, invs, module="SodTrace", dev=(), label="seq"):
    """Execute tests on the real code and validate the traces with TLC."""
    binp = vlib.build()
    if not tests:
        return
    t1 = time.time()
    shards = vlib.run_harness(binp, tests, w.sub("run-" + label))
    t2 = time.time()
    nev = 0
    for part, tp in shards:
        with open(tp) as f:
            for line in f:
                nev += 1
    ctx.events += nev
    ctx.tests += len(tests)
    for t in tests:
        sig = hashlib.sha256(json.dumps(t["ops"], sort_keys=True).encode()).hexdigest()
        if any(o["op"] in ("put", "many") for o in t["ops"]):
            ctx.nontrivial.add(sig)
    if len(ctx.samples) < 3:
        ctx.samples.append({"test": tests[0]["id"], "cfg": tests[0]["cfg"], "ops": tests[0]["ops"][:8]})
    known = [(k["id"], k["deviation"]) for k in load_known()["findings"] if k.get("status") == "known" and k["property"] == ctx.pid]
    failures, states, runs, hits = vlib.validate_many([tp for _, tp in shards], ["NoPanic"] + invs, w.sub("val-" + label), module=module, dev=dev, known=known)
    note_hits(ctx, hits)
    t3 = time.time()
    ctx.trace_states += states
    log("  [%s] %d tests, %d events: run %.1fs, TLC validation %.1fs (%d JVM runs, %d states)" % (label, len(tests), nev, t2 - t1, t3 - t2, runs, states))
    byid = {t["id"]: t for t in tests}
    for f in failures:
        if (f.event or {}).get("ev") == "hang" and not confirm_hang(ctx, w, binp, byid.get(f.test_id), timeout="240s"):
            continue          # stopped by the watchdog once, completes when re-executed alone: machine load
        record_failure(ctx, w, f, byid.get(f.test_id), invs, module)


def note_hits(ctx, hits):
    for k in load_known()["findings"]:
        if k["id"] in hits and k["id"] not in ctx.known_hits:
            ctx.known_hits[k["id"]] = k
            print("KNOWN-FINDING: property=%s %s" % (ctx.pid, k["what"]), flush=True)


def record_failure(ctx, w, f, test, invs, module):
    """A trace of the real code was rejected: known finding or violation."""
    os.makedirs(os.path.join(vlib.VERIF, "replays"), exist_ok=True)
    name = "%s-%s-%s.json" % (ctx.pid, f.test_id, hashlib.sha256("".join(f.lines).encode()).hexdigest()[:8])
    path = os.path.join(vlib.VERIF, "replays", name)
    ev = f.event or {}
    brief = {k: ev.get(k) for k in ("ev", "c", "slot", "after_fail", "in", "msg") if k in ev}
    with open(path, "w") as fh:
        rec = {"property": ctx.pid, "invariant": f.invariant, "event_index": f.event_index, "event": brief, "test": test,
               "invariants": invs, "module": module, "trace": [json.loads(x) for x in f.lines], "tlc": f.tlc_tail}
        if getattr(f, "lines2", None):
            rec["trace_b"] = [json.loads(x) for x in f.lines2]
            rec["test_b"] = getattr(f, "test_b", None)
        json.dump(rec, fh)
    ctx.failures.append((f.invariant, brief, path))
    print("VIOLATION property=%s replay=%s" % (ctx.pid, path), flush=True)
    log("  invariant %s rejected test %s at event %d: %s" % (f.invariant, f.test_id, f.event_index, json.dumps(brief)[:300]))


def pair_pipeline(ctx, w, tests, variants, label="pair"):
    """C12: run every test under the base configuration and under each variant
    configuration; TLC compares the two recordings event by event (SodPair)."""
    binp = vlib.build()
    base = vlib.run_harness(binp, tests, w.sub("run-%s-base" % label))
    nb = sum(1 for _, tp in base for _ in open(tp))
    ctx.events += nb
    ctx.tests += len(tests)
    for vi, vfn in enumerate(variants):
        vt = []
        for t in tests:
            t2 = json.loads(json.dumps(t))
            t2["cfg"] = vfn(dict(t["cfg"]))
            vt.append(t2)
        t1 = time.time()
        other = vlib.run_harness(binp, vt, w.sub("run-%s-%d" % (label, vi)))
        t2_ = time.time()
        ctx.events += sum(1 for _, tp in other for _ in open(tp))
        ctx.tests += len(vt)
        known = [(k["id"], k["deviation"]) for k in load_known()["findings"] if k.get("status") == "known" and k["property"] == ctx.pid]
        failures, states, runs, hits = vlib.validate_many([tp for _, tp in base], ["Conf_C12"], w.sub("val-%s-%d" % (label, vi)), module="SodPair",
                                                          seconds=[tp for _, tp in other], known=known)
        note_hits(ctx, hits)
        ctx.trace_states += states
        log("  [%s v%d %s] %d tests: run %.1fs, TLC pair validation %.1fs (%d runs, %d states)" %
            (label, vi, json.dumps(vt[0]["cfg"]), len(vt), t2_ - t1, time.time() - t2_, runs, states))
        byid = {t["id"]: t for t in tests}
        byid2 = {t["id"]: t for t in vt}
        # a test the progress watchdog stopped on either side differs from its twin for that reason alone: a verdict only
        # if it is stopped again when re-executed alone
        stopped = {}
        for which, shards_ in (("base", base), ("variant", other)):
            for _, tp in shards_:
                cur = None
                for line in open(tp):
                    if '"ev":"reset"' in line[:20]:
                        cur = json.loads(line).get("id")
                    elif '"ev":"hang"' in line[:20]:
                        stopped[cur] = which
        for f in failures:
            f.test_b = byid2.get(f.test_id)
            if f.test_id in stopped:
                t_ = byid.get(f.test_id) if stopped[f.test_id] == "base" else byid2.get(f.test_id)
                if not confirm_hang(ctx, w, binp, t_, timeout="240s"):
                    continue
            record_failure(ctx, w, f, byid.get(f.test_id), ["Conf_C12"], "SodPair")
    for t in tests:
        sig = hashlib.sha256(json.dumps(t["ops"], sort_keys=True).encode()).hexdigest()
        if any(o["op"] in ("put", "many") for o in t["ops"]):
            ctx.nontrivial.add(sig)
    if len(ctx.samples) < 3 and tests:
        ctx.samples.append({"test": tests[0]["id"], "base_cfg": tests[0]["cfg"], "ops": tests[0]["ops"][:8]})


def mc_tests(ctx, w, label, convert_kw=None, limit=None, **kw):
    """Histories enumerated by TLC from the design model -> harness tests
    (each under the settings it was generated for)."""
    binp = vlib.build()
    uni = gen.universe(binp)
    hists, r = gen.mc_generate(w.sub("gen-" + label), **kw)
    if r.violated or r.prop_violated:
        raise vlib.Inconclusive("design model violates its own invariants (model defect, not a verdict on the code):\n" + r.out[-3000:])
    ctx.mc_states += r.distinct
    ctx.mc_transitions += r.generated
    log("  [%s] design model: %d distinct states, %d transitions, %d histories emitted (%.1fs)" % (label, r.distinct, r.generated, len(hists), r.wall))
    if limit and len(hists) > limit:
        # keep a seeded sample, always keeping the longest histories' prefixes intact is not needed: tests are self-contained
        ctx.rng.shuffle(hists)
        hists = hists[:limit]
    else:
        ctx.exhaustive = True
    tests = []
    for i, h in enumerate(hists):
        t = gen.convert(uni, h, i + ctx.seed, **(convert_kw or {}))
        t["id"] = "%s%d" % (label, i)
        tests.append(t)
    return tests


def sim_tests(ctx, w, label, num, procs=8, convert_kw=None, **kw):
    """Long histories from random walks of the design model (tlc -simulate, several seeds in parallel)."""
    from concurrent.futures import ThreadPoolExecutor
    binp = vlib.build()
    uni = gen.universe(binp)
    per = max(1, num // procs)

    def one(i):
        return gen.mc_simulate(w.sub("sim-%s-%d" % (label, i)), num=per, depth=8 * kw.get("maxops", 10), seed=ctx.seed * 100 + i + 1, **kw)
    res = list(ThreadPoolExecutor(procs).map(one, range(procs)))
    hists = [h for hs, _ in res for h in hs]
    log("  [%s] %d random walks of the design model (tlc -simulate, %d seeds), up to %d calls each" % (label, len(hists), procs, kw.get("maxops", 10)))
    tests = []
    for i, h in enumerate(hists):
        t = gen.convert(uni, h, i + 7 * ctx.seed, **(convert_kw or {}))
        t["id"] = "%s%d" % (label, i)
        tests.append(t)
    ctx.extra_cov["simulated_walks"] = ctx.extra_cov.get("simulated_walks", 0) + len(hists)
    return tests


def rnd_tests(ctx, n, label="rnd", **kw):
    binp = vlib.build()
    uni = gen.universe(binp)
    out = []
    for i in range(n):
        t = gen.random_test(uni, ctx.rng, i, **kw)
        t["id"] = "%s%d" % (label, i)
        out.append(t)
    return out


_hang_budget = [6]


def confirm_hang(ctx, w, binp, test, env=None, tries=3, timeout="30s"):
    """A test stopped by the progress watchdog is only a verdict when it is stopped again when re-executed ALONE (no
    other shard competing for the processors) under a three times longer watchdog: a saturated machine must not be
    mistaken for a deadlock.  At most six tests are re-executed per check (each attempt may cost the whole delay)."""
    if test is None or _hang_budget[0] <= 0:
        return False
    _hang_budget[0] -= 1
    for i in range(tries):
        sh = vlib.run_harness(binp, [dict(test, id="%s-confirm%d" % (test["id"], i))], w.sub("confirm-%s-%d" % (test["id"], i)), shards=1, per_test_timeout=timeout, env=env, max_hangs=1)
        if any('"ev":"hang"' in l[:40] for _, tp in sh for l in open(tp)):
            return True
    log("NOTE watchdog: test %s was stopped once and completed %d times when re-executed alone: machine load, not a verdict" % (test["id"], tries))
    return False


def aux_tests(ctx, n, label="aux", mc=None, **kw):
    """Histories in which a second collection of the same database is written, deleted from, flushed and swept between
    the calls on the first one (harness/aux.go; oracle Conf_X): random ones, and a sample of model-derived ones."""
    out = []
    for t in rnd_tests(ctx, n, label=label, **kw):
        out.append(gen.with_aux(t, ctx.rng))
    for t in (mc or [])[:n]:
        t2 = gen.with_aux(t, ctx.rng, p=0.5)
        if t2.get("aux"):
            out.append(dict(t2, id=label + "-" + t["id"]))
    return [t for t in out if t.get("aux")]


# --------------------------------------------------------------------------- the properties

def check_C01(ctx, w):
    ctx.rule = ("tests = every transition of the bounded design model SodImpl (BFS-shortest history + transition, one per "
                "(state, action)), each replayed on the real code under the settings it was generated for, plus seeded random "
                "histories over rich value universes; a test is non-trivial if it contains an accepted-or-rejected write; distinct = distinct operation sequences")
    tests = mc_tests(ctx, w, "mc", slots=2, kvals=2, avals=2, maxbatch=2, maxops=ctx.q(3, 4), bfilter=ctx.q("PairBatch", "ValidABatch"),
                     limit=ctx.q(4000, 60000))
    tests += rnd_tests(ctx, ctx.q(150, 3000), nops=ctx.q(30, 50))
    tests += sim_tests(ctx, w, "sim", ctx.q(64, 1600), slots=3, kvals=3, avals=2, maxbatch=2, maxops=ctx.q(8, 12), bfilter="PairBatch", get=True)
    # Drop + Create on the live handle, and Flush(o) of single objects, at every position of the bounded histories
    tests += mc_tests(ctx, w, "dr", slots=2, kvals=2, avals=1, maxbatch=1, maxops=ctx.q(4, 5), bfilter="NoBatch", get=True, drop=True, flushone=True, repair=True, limit=ctx.q(2500, 40000))
    tests += aux_tests(ctx, ctx.q(100, 1500), mc=ctx.rng.sample(tests, min(len(tests), ctx.q(300, 3000))), nops=ctx.q(25, 40))
    # Create on the populated collection with other cache / async settings (one in three also asking for the opposite compression)
    # (short flusher timeout: the flusher goroutine of a closed handle only exits once its timeout has elapsed)
    tests += mc_tests(ctx, w, "sw", slots=2, kvals=2, avals=1, maxbatch=1, maxops=ctx.q(3, 4), bfilter="NoBatch", get=True, switch=True, limit=ctx.q(1500, 20000),
                      convert_kw=dict(thr=2, tmo_ms=200, vclock=True))
    seq_pipeline(ctx, w, tests, ["Conf_C01", "Conf_X", "Conf_Drop", "Conf_C10"])


def check_C03(ctx, w):
    ctx.rule = "as C01, with three key values on three slots so that every conflict / release / reuse pattern of the unique fields K and S (lower) occurs; random histories concentrate keys on a 7-value window"
    tests = mc_tests(ctx, w, "mc", slots=ctx.q(2, 3), kvals=3, avals=1, maxbatch=2, maxops=ctx.q(3, 4), bfilter=ctx.q("NoBatch", "PairBatch"), get=False,
                     limit=ctx.q(4000, 60000))
    tests += rnd_tests(ctx, ctx.q(150, 3000), nops=ctx.q(30, 50), p_del=0.25)
    tests += aux_tests(ctx, ctx.q(100, 1500), nops=ctx.q(25, 40), p_del=0.25)
    seq_pipeline(ctx, w, tests, ["Conf_C03", "Conf_X"])


def check_C06(ctx, w):
    ctx.rule = "every rejected write (Validate, uniqueness, batch) of every transition of the bounded model, with the full sweep right after the failing call; random histories with 25% invalid or conflicting objects"
    tests = mc_tests(ctx, w, "mc", slots=2, kvals=2, avals=2, maxbatch=2, maxops=ctx.q(3, 4), bfilter=ctx.q("PairBatch", "ValidABatch"),
                     limit=ctx.q(4000, 60000))
    tests += rnd_tests(ctx, ctx.q(150, 3000), nops=ctx.q(30, 50), p_bad=0.06)
    seq_pipeline(ctx, w, tests, ["Conf_C06"])
    # storage faults: a single injected fault at the k-th file-system call of the last call of a short history
    binp = vlib.build()
    uni = gen.universe(binp)
    ft = gen.fault_tests(uni, ctx.rng, ctx.q(1200, 20000))
    seq_pipeline(ctx, w, ft, ["Conf_C06", "Conf_C06F"], label="fault")
    count_events(ctx, w, "fault", inner=lambda e: True)
    fault_model(ctx, w)


FAULT_CFG = """SPECIFICATION Spec
CONSTANTS
  Slots = {%(slots)s}
  KVals = {%(kvals)s}
  AVals = {0, 1}
  MaxOps = %(maxops)d
  Dev = {%(dev)s}
INVARIANTS FaultSafeOrKnown EarlyFaultSafe QuiescentOK
CHECK_DEADLOCK FALSE
"""


def fault_model(ctx, w):
    """C06 (storage faults) at design level (spec/SodFault.tla): one failing file-system step in one call of every history
    of the bounded model, the call carrying on the way the code does.  With the known deviation enabled "no trace, or
    noticed and restorable, or the recorded shape at the recorded position" must be an invariant; without it the model
    must exhibit the finding."""
    known = [k["deviation"] for k in load_known()["findings"] if k.get("status") == "known" and k["property"] == "C06"]
    kw = dict(slots=ctx.q("1, 2", "1, 2, 3"), kvals=ctx.q("0, 1", "0, 1, 2"), maxops=ctx.q(3, 4))
    r = vlib.tlc("SodFault", FAULT_CFG % dict(dev=", ".join('"%s"' % d for d in known), **kw), w.sub("faultm"), workers=vlib.NCPU, timeout=1500, heap="8g")
    ctx.mc_states += r.distinct
    ctx.mc_transitions += r.generated
    ctx.extra_cov["fault_model_states"] = r.distinct
    log("  [SodFault] design-level storage-fault model with deviations {%s}: %d states, %s" %
        (", ".join(known), r.distinct, "no trace / noticed and restorable / known shape after every failing step" if r.completed else "** " + ", ".join(r.violated)))
    if not r.completed:
        raise vlib.Inconclusive("the design-level storage-fault model has a failing step outside the recorded shape (model result, to be confirmed on the code):\n" + r.out[-2500:])
    if known:
        r0 = vlib.tlc("SodFault", FAULT_CFG % dict(dev="", slots="1, 2", kvals="0, 1", maxops=3), w.sub("faultm0"), workers=4, timeout=600, heap="4g")
        log("  [SodFault] without deviation the model exhibits the finding: %s" % bool(r0.violated))
        ctx.extra_cov["fault_model_exhibits_known_finding"] = bool(r0.violated)


def check_C15(ctx, w):
    ctx.rule = "every insertion path (single, batch, chunked) with objects whose validity depends on transformed / canonicalised fields; hook calls logged by the driver's own objects"
    tests = mc_tests(ctx, w, "mc", slots=2, kvals=2, avals=1, maxbatch=2, maxops=ctx.q(3, 4), bfilter="AnyBatch", get=False, limit=ctx.q(4000, 60000))
    tests += rnd_tests(ctx, ctx.q(150, 3000), nops=ctx.q(30, 50), p_batch=0.3)
    seq_pipeline(ctx, w, tests, ["Conf_C15"])


def gen_tests(ctx, n, fn, label, **kw):
    binp = vlib.build()
    uni = gen.universe(binp)
    out = []
    for i in range(n):
        t = fn(uni, ctx.rng, i, **kw)
        t["id"] = "%s%d" % (label, i)
        out.append(t)
    return out


def check_C02(ctx, w):
    ctx.rule = ("sweep of every operator x every probe (each used value, its neighbours, absent values, non-canonical spellings, regex patterns) on every field "
                "after every transition of the bounded model (3 values, ties, updates moving inside the index, deletes, reopen), on the indexed and the plain struct; "
                "random And/Or chains of depth <= 3 and search-deletes on random contents")
    tests = mc_tests(ctx, w, "mc", slots=ctx.q(2, 3), kvals=2, avals=3, maxbatch=1, maxops=ctx.q(3, 4), bfilter="NoBatch", get=False,
                     limit=ctx.q(3000, 50000))
    tests += rnd_tests(ctx, ctx.q(150, 3000), nops=ctx.q(30, 50), p_query=0.15)
    seq_pipeline(ctx, w, tests, ["Conf_C02"])
    # the bisection arithmetic, transcribed (spec/FieldIndex.tla): algorithmic = declarative for every index content / probe
    fcfg = ("SPECIFICATION Spec\nCONSTANTS\n  Vals = {1, 2, 3, 4}\n  Probes = {0, 1, 2, 3, 4, 5}\n  MaxLen = %d\n"
            "INVARIANTS InsOK EqOK NeqOK GeOK GtOK LtOK LeOK InsertOK DeleteOK\nCHECK_DEADLOCK FALSE\n") % ctx.q(6, 9)
    rf = vlib.tlc("FieldIndex", fcfg, w.sub("fieldindex"), workers=8, timeout=900, heap="4g")
    if not rf.completed:
        raise vlib.Inconclusive("FieldIndex.tla (transcription of the bisection) fails its own lemmas: a model defect, not a verdict on the code\n" + rf.out[-2000:])
    ctx.mc_states += rf.distinct
    ctx.mc_transitions += rf.generated
    ctx.extra_cov["fieldindex_states"] = rf.distinct
    log("  [FieldIndex] transcription of the bisection: %d (index content, probe) states, all nine lemmas hold" % rf.distinct)
    # ... and every such index content built through the public API in every insertion order
    binp = vlib.build()
    it = gen.index_order_tests(ctx.q(4, 5), field="A") + gen.index_order_tests(ctx.q(3, 4), field="N", base=0, nvals=3) if False else gen.index_order_tests(ctx.q(4, 5), field="A")
    it += [dict(t, id=t["id"] + "u", fields=["U"], ops=[dict(o, o={("U" if k == "A" else k): (v - 3 if k == "A" else v) for k, v in o["o"].items()}) if "o" in o else o for o in t["ops"]])
           for t in gen.index_order_tests(ctx.q(3, 4), field="A")]
    seq_pipeline(ctx, w, it, ["Conf_C02", "Conf_C13"], label="orders")


def check_C04(ctx, w):
    ctx.rule = "close+reopen (with and without Create) and, in synchronous mode, abandonment at every position of every history of the bounded model, full sweep before and after; random histories over the extreme-value palettes (2^53 neighbours, MaxInt64, nanosecond timestamps)"
    tests = mc_tests(ctx, w, "mc", slots=2, kvals=2, avals=2, maxbatch=2, maxops=ctx.q(3, 4), bfilter="PairBatch", get=False, limit=ctx.q(3000, 30000))
    tests += rnd_tests(ctx, ctx.q(200, 2000), nops=ctx.q(25, 50), p_reopen=0.2, abandon=True)
    tests += sim_tests(ctx, w, "sim", ctx.q(64, 1600), slots=3, kvals=3, avals=2, maxbatch=1, maxops=ctx.q(8, 12), bfilter="NoBatch", get=False)
    tests += aux_tests(ctx, ctx.q(100, 1500), mc=ctx.rng.sample(tests, min(len(tests), ctx.q(300, 3000))), nops=ctx.q(25, 40), p_reopen=0.2, abandon=True)
    # "subsequent operations behave as if no restart had happened": on these restart-heavy histories the write and read
    # oracles of the abstract map are evaluated as well (uniqueness, canonical case, reads, searches after the restart)
    seq_pipeline(ctx, w, tests, ["Conf_C04", "Conf_X", "Conf_C01", "Conf_C02", "Conf_C03", "Conf_C16"])


def check_C07(ctx, w):
    ctx.rule = "every batch of length <= 2 (quick) / 3 (thorough) over the bounded objects on every reachable pre-state: offender at every position, duplicates, same identity twice, updates mixed with inserts; random batches <= 5 with chunk sizes 1..3, same object repeated, other-type objects"
    tests = mc_tests(ctx, w, "mc", slots=2, kvals=2, avals=1, maxbatch=ctx.q(2, 3), maxops=ctx.q(3, 3), bfilter="AnyBatch", get=False, limit=ctx.q(4000, 60000))
    tests += rnd_tests(ctx, ctx.q(200, 3000), nops=ctx.q(25, 40), p_batch=0.45)
    # a UNIQUE time field whose instants are written in two time zones (custom schema 9): conflicts inside a batch are
    # conflicts of index keys, not of Go values
    tests += rnd_tests(ctx, ctx.q(60, 800), label="tz", nops=ctx.q(25, 40), p_batch=0.5, fields=["T", "A"], cust=9)
    seq_pipeline(ctx, w, tests, ["Conf_C07", "Conf_C03"])


def check_C13(ctx, w):
    ctx.rule = "searches and And-chains ending on an indexed field collected with Reverse x Limit in {none,0,1,2,3,n-1,n,n+1,2^30} x One, on random contents with ties; AssignIndex and ordered sweep queries after every transition of the bounded model"
    tests = mc_tests(ctx, w, "mc", slots=ctx.q(2, 3), kvals=2, avals=2, maxbatch=1, maxops=ctx.q(3, 4), bfilter="NoBatch", get=False, limit=ctx.q(2000, 30000))
    tests += gen_tests(ctx, ctx.q(200, 3000), gen.order_test, "ord", nobj=ctx.q(6, 10), nq=ctx.q(8, 12))
    seq_pipeline(ctx, w, tests, ["Conf_C13"])
    search_model(ctx, w)


SEARCH_CFG = """SPECIFICATION Spec
CONSTANTS
  Keys = {%(keys)s}
  Limits = {%(limits)s}
  MaxVals = %(maxvals)d
  MaxSteps = %(maxsteps)d
  Dev = {%(dev)s}
INVARIANTS CollectExact TypeOK
%(props)s
CHECK_DEADLOCK FALSE
"""


def search_model(ctx, w):
    """C13 / C20 at design level (spec/SodSearch.tla): a search value = matches in index order + the sticky settings Limit and
    Reverse; collecting is an observation, a refinement is a new value.  The deviations (what F31 and seed C13-e did) must
    break CollectExact, otherwise the model would say nothing."""
    kw = dict(keys=ctx.q("1, 2, 3", "1, 2, 3, 4"), limits=ctx.q("0, 1, 2", "0, 1, 2, 5"), maxvals=ctx.q(2, 3), maxsteps=ctx.q(5, 6))
    r = vlib.tlc("SodSearch", SEARCH_CFG % dict(dev="", props="PROPERTIES CollectIsObservation RefineIsNew", **kw), w.sub("searchm"), workers=vlib.NCPU, timeout=1200, heap="6g")
    ctx.mc_states += r.distinct
    ctx.mc_transitions += r.generated
    ctx.extra_cov["search_model_states"] = r.distinct
    log("  [SodSearch] design-level model of search values: %d states, %s" % (r.distinct, "CollectExact, CollectIsObservation, RefineIsNew hold" if r.completed else "** " + ", ".join(r.violated)))
    if not r.completed:
        raise vlib.Inconclusive("the design-level model of search values does not hold (model result):\n" + r.out[-2500:])
    broke = {}
    for dv in ("SpentLimit", "InheritLimit"):
        r1 = vlib.tlc("SodSearch", SEARCH_CFG % dict(dev='"%s"' % dv, props="", keys="1, 2, 3", limits="0, 1, 2", maxvals=2, maxsteps=5), w.sub("searchm-" + dv), workers=4, timeout=600, heap="3g")
        broke[dv] = "CollectExact" in " ".join(r1.violated)
    log("  [SodSearch] each deviation breaks CollectExact: %s" % broke)
    ctx.extra_cov["search_model_deviations_break_it"] = broke
    if not all(broke.values()):
        raise vlib.Inconclusive("a deviation of SodSearch no longer breaks CollectExact: the model has become vacuous")


def check_C16(ctx, w):
    ctx.rule = "case-constrained fields (unique lower, indexed upper, unindexed lower, nested upper behind nil / non-nil pointer) written and probed with every spelling variant of the universe (ASCII, sharp s, dotless i, Kelvin sign, digraphs, final sigma)"
    tests = mc_tests(ctx, w, "mc", slots=2, kvals=3, avals=2, maxbatch=1, maxops=ctx.q(3, 4), bfilter="NoBatch", get=False, limit=ctx.q(2000, 30000),
                     convert_kw=dict(extra=3))
    tests += rnd_tests(ctx, ctx.q(200, 3000), nops=ctx.q(25, 40), case_heavy=True, fields=["N", "PX", "Z"], p_query=0.1)
    # case constraints that only a custom schema can give: lower + unique on a plain string field, upper on an optional string (*string)
    tests += rnd_tests(ctx, ctx.q(40, 600), label="cz", nops=ctx.q(25, 40), case_heavy=True, fields=["N", "Z"], p_query=0.1, cust=6)
    tests += rnd_tests(ctx, ctx.q(40, 600), label="cr", nops=ctx.q(25, 40), case_heavy=True, fields=["N", "R"], p_query=0.1, cust=7)
    # ... and BOTH constraints on one field (applied one after the other wherever a value is canonicalised)
    tests += rnd_tests(ctx, ctx.q(40, 600), label="cb", nops=ctx.q(25, 40), case_heavy=True, fields=["N", "Z"], p_query=0.1, cust=8)
    seq_pipeline(ctx, w, tests, ["Conf_C16"])


def check_C20(ctx, w):
    ctx.rule = "a query evaluated twice at the same instant (twin handles): one collected at once, the other after <= 2 (model) / <= 4 (random) later inserts, updates, deletes, batches, search-deletes; exhaustive over operators, probes and write sequences of the bounded model"
    tests = mc_tests(ctx, w, "mc", slots=ctx.q(2, 3), kvals=2, avals=ctx.q(2, 3), maxbatch=1, maxops=ctx.q(4, 5), bfilter="NoBatch", get=False, handle=True,
                     limit=ctx.q(4000, 60000))
    tests = [t for t in tests if any(o["op"] == "collect" for o in t["ops"])]
    tests += gen_tests(ctx, ctx.q(200, 3000), gen.snapshot_test, "snap", nobj=ctx.q(6, 10))
    seq_pipeline(ctx, w, tests, ["Conf_C20"])


def check_C12(ctx, w):
    ctx.rule = ("every test (all transitions of the bounded model + random histories with query chains, invalid patterns, rejected writes, reopen) is executed under the base configuration "
                "(sync, no cache, no compression, indexed) and under each other configuration; pairs of recordings compared event by event by TLC; configurations: cache, async, cache+async, gzip, "
                "lower-case names, custom extension, plain struct (searched fields not indexed), and combinations")
    tests = mc_tests(ctx, w, "mc", slots=2, kvals=2, avals=2, maxbatch=2, maxops=ctx.q(3, 4), bfilter="PairBatch", get=True, limit=ctx.q(1200, 20000), cfgs="SyncCfgs")
    tests += rnd_tests(ctx, ctx.q(100, 1500), nops=ctx.q(25, 40), p_query=0.12)
    tests += gen_tests(ctx, 6, gen.args_test, "arg")
    # settings switches (cache / async on and off) that only the "switchy" variant executes: going through other settings
    # and back changes nothing that a call returns
    sw = rnd_tests(ctx, ctx.q(60, 900), label="swy", nops=ctx.q(25, 40), p_query=0.05)
    for t in sw:
        ops = []
        for o in t["ops"]:
            ops.append(o)
            if ctx.rng.random() < 0.12:
                ops.append({"op": "switch", "cfg": {"cache": ctx.rng.random() < 0.5, "async": ctx.rng.random() < 0.5, "thr": 100000, "tmo_ms": 3600000}, "variant_only": True})
        t["ops"] = ops
    # ... and every ordered TRIPLE of (cache, async) settings, each with writes, deletes and reads in between: what one
    # setting leaves behind (cached copies, pending writes) must not be served by a later one
    four = [(c, a) for c in (False, True) for a in (False, True)]
    triples = [(x, y, z) for x in four for y in four for z in four]
    st = rnd_tests(ctx, len(triples) * ctx.q(2, 6), label="swt", nops=ctx.q(16, 24), p_query=0.05)
    for i, t in enumerate(st):
        n = len(t["ops"])
        cut = {n // 4: 0, n // 2: 1, (3 * n) // 4: 2}
        ops = []
        for j, o in enumerate(t["ops"]):
            if j in cut:
                c, a = triples[i % len(triples)][cut[j]]
                ops.append({"op": "switch", "cfg": {"cache": c, "async": a, "thr": 100000, "tmo_ms": 3600000}, "variant_only": True})
            ops.append(o)
        t["ops"] = ops
    sw += st
    basecfg = dict(cache=False, thr=100000, tmo_ms=3600000, gz=False, lc=False, ext=".json", plain=False)
    basecfg["async"] = False
    for t in tests:
        t["cfg"] = dict(basecfg)
        for o in t["ops"]:
            if o["op"] == "reopen":
                o["close"] = True       # abandoning a handle is only promised harmless in sync mode (C04)

    def V(**kw):
        def f(c):
            c.update(kw)
            return c
        return f
    # (custom schemas 2 and 3 only change which fields are indexed: U loses its index, V gets one)
    variants = [V(cache=True), V(**{"async": True}), V(gz=True, lc=True), V(plain=True), V(ext=".dat", cache=True, **{"async": True}), V(cust=2), V(cust=3, cache=True),
                V(asyncoff=True)]       # asynchronous-write settings present but switched off = synchronous
    if not ctx.quick:
        variants += [V(plain=True, cache=True, gz=True), V(plain=True, lc=True, **{"async": True}), V(gz=True, ext=".x"), V(lc=True, cache=True), V(asyncoff=True, cache=True, gz=True)]
    pair_pipeline(ctx, w, tests, variants)
    for t in sw:
        t["cfg"] = dict(basecfg)
        for o in t["ops"]:
            if o["op"] == "reopen":
                o["close"] = True
    pair_pipeline(ctx, w, sw, [V(switchy=True), V(switchy=True, cache=True)], label="swy")


def check_C05(ctx, w):
    ctx.level = "fault_enumeration"
    ctx.rule = ("for every mutating call of every history (all transitions of the bounded model in synchronous configurations + random short histories) the file-system calls of the "
                "real run are recorded by the shim and the directory is materialised for EVERY prefix, with each write torn into truncated / half / full; each state is opened by the real code with the "
                "documented recovery procedure (first load, Create if the schema is gone, Control, sweep, Repair, Control, sweep, Close, reload, sweep) and TLC judges CrashOK; a case = one crash state; "
                "non-trivial = a state strictly inside a call")
    tests = [gen.crashify(t) for t in mc_tests(ctx, w, "mc", slots=2, kvals=2, avals=2, maxbatch=2, maxops=ctx.q(3, 4), bfilter="PairBatch", get=False,
                                                 limit=ctx.q(250, 6000), cfgs="SyncCfgs")]
    tests += gen_tests(ctx, ctx.q(100, 3000), gen.crash_test, "cr", nops=ctx.q(3, 5))
    # asynchronous configurations: crash points of deletes, FlushAll / FlushAllAndCommit / Commit and Close, and between calls with writes pending
    tests += gen_tests(ctx, ctx.q(80, 2000), gen.async_crash_test, "acr", nops=ctx.q(3, 5))
    tests += gen_tests(ctx, ctx.q(24, 300), gen.async_handover_test, "aho")
    seq_pipeline(ctx, w, tests, ["Conf_C05"])
    count_events(ctx, w, "crash")
    disk_model(ctx, w)


DISK_CFG = """SPECIFICATION Spec
CONSTANTS
  Slots = {%(slots)s}
  KVals = {0, 1}
  AVals = {0, 1}
  MaxOps = %(maxops)d
  Dev = {%(dev)s}
INVARIANTS CrashSafeOrKnown QuiescentOK
CHECK_DEADLOCK FALSE
"""


def disk_model(ctx, w):
    """C05 at design level (spec/SodDisk.tla): every crash point of every history of the bounded model.  With the
    listed known deviations enabled CrashSafe \\/ StaleShape must be an invariant (every violating crash point has the
    recorded shape); with no deviation the model must exhibit the finding (otherwise the deviation is noise)."""
    import glob, re
    # (SodDisk models the synchronous write protocol; the asynchronous form of the finding, K03, is judged on recordings only)
    known = [k["deviation"] for k in load_known()["findings"] if k.get("status") == "known" and k["property"] == "C05" and k["deviation"] in ("StaleIndex", "InPlaceWrite")]
    kw = dict(slots=", ".join(str(i) for i in range(1, ctx.q(2, 3) + 1)), maxops=ctx.q(3, 3))
    r = vlib.tlc("SodDisk", DISK_CFG % dict(dev=", ".join('"%s"' % d for d in known), **kw), w.sub("disk"), workers=vlib.NCPU, timeout=1500, heap="8g")
    ctx.mc_states += r.distinct
    ctx.mc_transitions += r.generated
    ctx.extra_cov["disk_model_states"] = r.distinct
    log("  [SodDisk] design-level crash model with deviations {%s}: %d states = crash points, %s" % (", ".join(known), r.distinct, "CrashSafe or known shape everywhere" if r.completed else "** " + ", ".join(r.violated)))
    if not r.completed:
        raise vlib.Inconclusive("the design-level crash model has a crash point outside the recorded shapes (model result, to be confirmed on the code):\n" + r.out[-2500:])
    if known:
        r0 = vlib.tlc("SodDisk", DISK_CFG % dict(dev="", **kw), w.sub("disk0"), workers=vlib.NCPU, timeout=900, heap="8g")
        log("  [SodDisk] without deviation the model exhibits the finding: %s" % bool(r0.violated))
        ctx.extra_cov["disk_model_exhibits_known_finding"] = bool(r0.violated)
    # the asynchronous protocol (spec/SodDiskAsync.tla): memory-only writes, deletes / commits / flushes one file at a time in any order
    aknown = [k["deviation"] for k in load_known()["findings"] if k.get("status") == "known" and k["property"] == "C05" and k["deviation"] in ("AsyncStaleIndex", "AsyncUniqueClash")]
    acfg = ("SPECIFICATION Spec\nCONSTANTS\n  Slots = {%s}\n  KVals = {%s}\n  AVals = {0}\n  MaxOps = %d\n  Dev = {%s}\nINVARIANTS CrashSafeOrKnown QuiescentOK\nCHECK_DEADLOCK FALSE\n")
    akw = (ctx.q("1, 2", "1, 2, 3"), ctx.q("0, 1", "0, 1, 2"), ctx.q(5, 7))
    ra = vlib.tlc("SodDiskAsync", acfg % (akw + (", ".join('"%s"' % d for d in aknown),)), w.sub("diska"), workers=vlib.NCPU, timeout=1500, heap="10g")
    ctx.mc_states += ra.distinct
    ctx.mc_transitions += ra.generated
    ctx.extra_cov["async_disk_model_states"] = ra.distinct
    log("  [SodDiskAsync] design-level crash model of the asynchronous protocol with deviations {%s}: %d states = crash points, %s" %
        (", ".join(aknown), ra.distinct, "CrashSafe or known shape everywhere" if ra.completed else "** " + ", ".join(ra.violated)))
    if not ra.completed:
        raise vlib.Inconclusive("the design-level asynchronous crash model has a crash point outside the recorded shapes (model result, to be confirmed on the code):\n" + ra.out[-2500:])
    exhibits = {}
    for dv in aknown:
        r1 = vlib.tlc("SodDiskAsync", acfg % (("1, 2", "0, 1", 5) + (", ".join('"%s"' % d for d in aknown if d != dv),)), w.sub("diska-" + dv), workers=4, timeout=600, heap="4g")
        exhibits[dv] = bool(r1.violated)
    if aknown:
        log("  [SodDiskAsync] without each deviation the model exhibits the finding: %s" % exhibits)
        ctx.extra_cov["async_disk_model_exhibits_known_findings"] = exhibits
    # binding (drift note, not a verdict): the file-system steps recorded on the real code have the shape the model assumes:
    # object files first, schema last, each through a temporary file renamed into place
    drift = 0
    calls = 0
    for tp in glob.glob(w.path("run-*", "trace-*.ndjson")):
        cur = []
        sync = True
        for line in open(tp):
            if '"ev":"hdr"' in line:
                sync = not json.loads(line)["cfg"]["async"]
                continue
            if '"ev":"crash"' not in line:
                continue
            e = json.loads(line)
            if e.get("ev") != "crash":
                continue
            if e["k"] == 0:
                cur = []
            else:
                cur.append(e["step"])
            if e["k"] == e["n"] and e["n"] > 0:
                calls += 1
                kinds = "".join("m" if s.startswith("mkdir") else "r" if s.startswith("rename") and "schema.json" not in s.split("->")[-1] else
                                "S" if s.startswith("rename") else "x" if s.startswith("remove") else "t" for s in cur)
                # (object files through temp+rename, or removals)* then the schema through temp+rename; a chunked
                # bulk insert is a sequence of such commits
                # asynchronous: object files (flush) or a removal (delete) first, then the schema if the call commits (a chunked batch commits once per chunk)
                if not re.fullmatch(r"((m?(t+r|x))*m?t+S)+" if sync else r"(m?(t+r|x))*(m?t+S)*", kinds):
                    drift += 1
    ctx.extra_cov["fs_step_sequences_checked"] = calls
    if drift:
        log("NOTE model-drift: %d of %d recorded calls do not have the step shape SodDisk assumes; the design-level result is not applicable to this tree" % (drift, calls))
        ctx.extra_cov["disk_model_drift"] = drift
    else:
        log("  [SodDisk / SodDiskAsync] %d recorded calls have the step shape the models assume (objects through temp+rename first, schema last)" % calls)


def count_events(ctx, w, kind, inner=lambda e: e.get("k", 1) not in (0, e.get("n", -1))):
    import glob
    n = ni = 0
    for tp in glob.glob(w.path("run-*", "trace-*.ndjson")):
        with open(tp) as f:
            for line in f:
                if '"ev":"%s"' % kind in line:
                    e = json.loads(line)
                    if e.get("ev") == kind:
                        n += 1
                        if inner(e):
                            ni += 1
    ctx.extra_cov["%s_states_examined" % kind] = n
    ctx.extra_cov["%s_states_nontrivial" % kind] = ni
    ctx.extra_cov["evaluations_of_this_kind"] = n


def check_C11(ctx, w):
    ctx.level = "fault_enumeration"
    ctx.rule = ("every subset of {remove object file} x {remove index entry (structural edit of schema.json)} x {add 0,1,2 valid object files with fresh uuids} x {remove schema.json} on databases of "
                "0..3 (thorough: 0..5) objects (one in three with a moved index entry, one in three with asynchronous writes enabled), all storage configurations; then the recovery procedure, more writes, reopen; exhaustive in the thorough tier; "
                "non-trivial = at least one damage")
    binp = vlib.build()
    uni = gen.universe(binp)
    tests = gen.damage_tests(uni, ctx.rng, limit=None, nslots=ctx.q(3, 5))
    ctx.exhaustive = True
    seq_pipeline(ctx, w, tests, ["Conf_C11", "Conf_C01", "Conf_X"])
    # design level (spec/SodRepair.tla): every damage sequence on every consistent database of the bounded model
    rcfg = ("SPECIFICATION Spec\nCONSTANTS\n  Slots = {%s}\n  Vals = {0, 1}\n  MaxDamage = %d\nINVARIANTS ControlIff RepairConverges NoFalsePositive\n"
            "PROPERTY RepairKeepsFiles\nCHECK_DEADLOCK FALSE\n") % (", ".join(str(i) for i in range(1, ctx.q(3, 4) + 1)), ctx.q(3, 4))
    rr = vlib.tlc("SodRepair", rcfg, w.sub("repair"), workers=8, timeout=900, heap="6g")
    if not rr.completed:
        raise vlib.Inconclusive("SodRepair.tla fails its own properties (model defect, not a verdict on the code):\n" + rr.out[-2000:])
    ctx.mc_states += rr.distinct
    ctx.mc_transitions += rr.generated
    log("  [SodRepair] design-level damage / recovery model: %d states, ControlIff, RepairConverges, RepairKeepsFiles, NoFalsePositive hold" % rr.distinct)
    count_events(ctx, w, "damage", inner=lambda e: bool(e.get("rm") or e.get("add") or e.get("unindex") or e.get("rmschema")))
    if not ctx.quick:
        tlaps_proofs(ctx, w, "SodRepair", "SodRepairProofs")


def tlaps_proofs(ctx, w, module, proofs):
    """Design level, unbounded: the TLAPS proofs of spec/proofs/<proofs>.tla (for ARBITRARY constant sets) are re-checked by
    tlapm.  A proof that no longer goes through means specification and proof have drifted apart: a NOTE, never a verdict on the code."""
    import shutil
    d = w.sub("tlaps")
    shutil.copy(os.path.join(vlib.SPEC, module + ".tla"), d)
    shutil.copy(os.path.join(vlib.SPEC, "proofs", proofs + ".tla"), d)
    try:
        p = subprocess.run(["timeout", "900", "tlapm", "--threads", str(vlib.NCPU), proofs + ".tla"], cwd=d, stdout=subprocess.PIPE, stderr=subprocess.STDOUT, text=True)
    except OSError as e:
        log("NOTE tlaps: tlapm could not be run (%s)" % e)
        return
    m = re.search(r"All (\d+) obligations? proved", p.stdout)
    if m:
        ctx.extra_cov["tlaps_obligations_proved"] = int(m.group(1))
        log("  [tlaps] %s: all %s proof obligations proved (arbitrary Slots, Vals, MaxDamage): ControlIff, RepairConverges, NoFalsePositive, RepairKeepsFiles" % (proofs, m.group(1)))
    else:
        ctx.extra_cov["tlaps_obligations_proved"] = 0
        log("NOTE tlaps: %s is not fully proved on this specification (proof drift, not a verdict):\n%s" % (proofs, p.stdout[-1500:]))


def check_C08(ctx, w):
    ctx.rule = ("result part: seeded concurrent programs (3-4 goroutines x 3 calls over put / batch / delete / DeleteAll / search-delete / Get / Exist / Count / All / Search, sync, cached and async "
                "configurations, with and without a reopen so that the goroutines race on the first access, schedule perturbation at file-system call sites, the flusher polling every 0.5 ms) are "
                "recorded as invocation / return histories; TLC searches a linearization of each (SodLin); memory part: the same generator with And / Or chains, flush, Control, AssignIndex and settings "
                "switches runs under the Go race detector with no driver-side synchronisation at all; a case = one history; non-trivial = at least two goroutines with a write")
    binp = vlib.build()
    uni = gen.universe(binp)
    n = ctx.q(400, 40000)
    tests = [gen.conc_test(uni, ctx.rng, i, nthreads=ctx.rng.choice([3, 4]), nops=3) for i in range(n)]
    t1 = time.time()
    shards = vlib.run_harness(binp, tests, w.sub("run-lin"), per_test_timeout="10s", max_hangs=2)
    t2 = time.time()
    from concurrent.futures import ThreadPoolExecutor
    res = list(ThreadPoolExecutor(vlib.NCPU).map(lambda x: vlib.validate_lin(x[1][1], w.sub("val-lin-%d" % x[0])), enumerate(shards)))
    byid = {t["id"]: t for t in tests}
    nev = sum(1 for _, tp in shards for _ in open(tp))
    ctx.events += nev
    ctx.tests += len(tests)
    states = sum(r[1] for r in res)
    ctx.trace_states += states
    ctx.mc_states += states          # the linearization search is itself a TLC state-space exploration
    ctx.mc_transitions += states
    log("  [lin] %d histories, %d events: run %.1fs, TLC linearization search %.1fs (%d states)" % (len(tests), nev, t2 - t1, time.time() - t2, states))
    for r in res:
        for f in r[0]:
            record_failure(ctx, w, f, byid.get(f.test_id), ["Linearizable"], "SodLin")
    for t in tests:
        if sum(1 for th in t["threads"] if any(o["op"] in ("put", "many", "del", "delall", "delq") for o in th)) >= 2:
            ctx.nontrivial.add(t["id"])
    ctx.samples.append({"history": tests[0]["id"], "cfg": tests[0]["cfg"], "threads": tests[0]["threads"]})
    # Drop + Create racing with writers and readers, schedule perturbed at the file-system calls: judged by the final state
    dt = gen.drop_conc_tests(uni, ctx.rng, n=ctx.q(48, 1200), reps=ctx.q(12, 18))
    dshards = vlib.run_harness(binp, dt, w.sub("run-drop"), per_test_timeout="20s", max_hangs=2)
    dbyid = {t["id"]: t for t in dt}
    nd = 0
    for i, (part, tp) in enumerate(dshards):
        cfg = 'SPECIFICATION Spec\nCONSTANTS\n  TraceFile = "%s"\nINVARIANTS NoPanic FinalOK\nPOSTCONDITION TraceAccepted\nCHECK_DEADLOCK FALSE\n' % tp
        r = vlib.tlc("SodFinal", cfg, w.sub("val-drop-%d" % i), workers=1, timeout=300, heap="2g")
        ctx.trace_states += r.distinct
        if not r.ok() and not (r.violated or r.post_failed):
            raise vlib.Inconclusive("SodFinal could not be evaluated (specification or tool error, not a verdict):\n" + r.out[-2000:])
        if not r.ok():
            # locate the test: the line TLC stopped at
            ll = r.last_l() or r.distinct
            lines = open(tp).read().splitlines()
            cur = None
            for k, line in enumerate(lines[: max(1, ll - 1)]):
                if '"ev":"reset"' in line[:20]:
                    cur = json.loads(line).get("id")
            e = json.loads(lines[ll - 2]) if 2 <= ll <= len(lines) + 1 else {}
            if e.get("ev") == "hang" and not confirm_hang(ctx, w, binp, dbyid.get(cur), timeout="60s"):
                continue
            nd += 1
            f = vlib.Failure(cur, (r.violated or ["FinalOK"])[0], ll - 2, e, lines[max(0, ll - 12): ll], r.out[-1500:])
            record_failure(ctx, w, f, dbyid.get(cur), ["FinalOK"], "SodFinal")
    ctx.tests += len(dt)
    ctx.extra_cov["drop_histories_final_state"] = len(dt)
    log("  [drop] %d concurrent histories with Drop + Create among the calls, final state judged by SodFinal: %d rejected" % (len(dt), nd))
    # memory part: race detector
    rb = vlib.build(race=True)
    nr = ctx.q(600, 40000)
    rtests = [gen.conc_test(uni, ctx.rng, i, nthreads=4, nops=4, race=True) for i in range(nr)]
    for t in rtests:
        t["id"] = "rc" + t["id"][2:]
    t3 = time.time()
    rshards = vlib.run_harness(rb, rtests, w.sub("run-race"), env=dict(os.environ, GORACE="halt_on_error=1"), per_test_timeout="20s", max_hangs=2)
    races = 0
    rbyid = {t["id"]: t for t in rtests}
    for part, tp in rshards:
        cur = None
        lines = []
        for line in open(tp):
            e = json.loads(line)
            if e["ev"] == "reset":
                cur, lines = e.get("id"), []
            lines.append(line)
            if e["ev"] in ("panic", "hang"):
                if e["ev"] == "hang" and not confirm_hang(ctx, w, rb, rbyid.get(cur), env=dict(os.environ, GORACE="halt_on_error=1"), timeout="60s"):
                    continue
                races += 1
                st = (e.get("stack") or "") + (e.get("msg") or "")
                f = vlib.Failure(cur, "DataRace" if "DATA RACE" in st else "NoPanic", len(lines) - 1, e, list(lines), st[-1500:])
                record_failure(ctx, w, f, rbyid.get(cur), ["NoRace"], "race-detector")
    ctx.tests += len(rtests)
    ctx.extra_cov["race_detector_runs"] = len(rtests)
    ctx.extra_cov["race_reports"] = races
    log("  [race] %d concurrent programs under the race detector: %.1fs, %d reports" % (len(rtests), time.time() - t3, races))
    # the race model: accesses to fields of the shared structures extracted from the current source, lock sets computed by TLC
    new_races = race_model(ctx, w)
    # every kind of call against a writer and against calls on a second collection (first access after Open), under the race detector;
    # a larger corpus when the model reports a pair of accesses that is not in the justified baseline
    st = gen.race_stress_tests(uni, ctx.rng, reps=ctx.q(40, 120) * (3 if new_races else 1))
    if new_races:
        st = st + [dict(t, id=t["id"] + "-b") for t in st] + [dict(t, id=t["id"] + "-c") for t in st]
    t4 = time.time()
    sshards = vlib.run_harness(rb, st, w.sub("run-stress"), env=dict(os.environ, GORACE="halt_on_error=1"), per_test_timeout="60s", max_hangs=2)
    sbyid = {t["id"]: t for t in st}
    sraces = 0
    for part, tp in sshards:
        cur, lines = None, []
        for line in open(tp):
            e = json.loads(line)
            if e["ev"] == "reset":
                cur, lines = e.get("id"), []
            lines.append(line)
            if e["ev"] in ("panic", "hang"):
                if e["ev"] == "hang" and not confirm_hang(ctx, w, rb, sbyid.get(cur), env=dict(os.environ, GORACE="halt_on_error=1"), timeout="120s"):
                    continue
                sraces += 1
                stx = (e.get("stack") or "") + (e.get("msg") or "")
                f = vlib.Failure(cur, "DataRace" if ("DATA RACE" in stx or "concurrent map" in stx) else "NoPanic", len(lines) - 1, e, list(lines), stx[-1500:])
                record_failure(ctx, w, f, sbyid.get(cur), ["NoRace"], "race-detector")
    ctx.tests += len(st)
    ctx.extra_cov["race_stress_runs"] = len(st)
    log("  [race] %d stress programs (one kind of call x writer x second collection) under the race detector: %.1fs, %d reports" % (len(st), time.time() - t4, sraces))
    if new_races and races + sraces == 0:
        log("NOTE race-model: %d pair(s) of accesses outside the justified baseline were not reproduced by the race detector (potential races, not a verdict): %s" %
            (len(new_races), "; ".join("%s written in %s [%s] vs %s in %s [%s]" % (r["loc"], r["w_site"], r["w_held"], r["o_kind"], r["o_site"], r["o_held"]) for r in new_races[:6])))
    ctx.assumptions = ["the race detector only reports races that occur in the executed schedules", "sequence numbers drawn before / after each call respect real-time order (atomic counter)",
                       "TLC explores all linearization points of spec/SodLin.tla"]


RACE_CFG = """SPECIFICATION Spec
CONSTANTS
  T = 1
  Entries = {%s}
  Flusher = ""
  FlushRounds = 0
  MaxBack = 1
INVARIANTS Collect
POSTCONDITION RaceReport
CHECK_DEADLOCK FALSE
"""


def race_model(ctx, w):
    """Memory part of C08 at model level.  tools/extract -race emits, between the lock operations of every entry point and
    goroutine, the accesses to fields of the structures reachable from a handle; TLC (spec/SodLock.tla, T = 1) explores every
    program alone and collects every access with the EXACT set of locks held when it is made (every path); RaceSet = pairs
    on the same location, one writing, with compatible lock sets.  Pairs listed in benign_races.json (location + writing
    function, each with its justification) are artefacts of naming locations after types; anything else is a potential race:
    it steers a larger race-detector corpus and is reported as a violation only if the detector confirms it."""
    import shutil
    facts, tla, out = vlib.extract_facts(w.sub("rfacts"))
    d = w.sub("race-model")
    for f in os.listdir(vlib.SPEC):
        if f.endswith(".tla"):
            shutil.copy(os.path.join(vlib.SPEC, f), d)
    shutil.copy(os.path.join(os.path.dirname(tla), "race", "SodLockFacts.tla"), os.path.join(d, "SodLockFacts.tla"))
    with open(os.path.join(d, "MCRace.tla"), "w") as f:
        f.write("---- MODULE MCRace ----\nEXTENDS SodLock\nASSUME TLCSet(7, {})\n====\n")
    names = [fld_name(p["name"]) for p in facts]
    names = [n for n in names if n.startswith("DB_") or n.startswith("Search_") or n.startswith("go_at_")]
    r = vlib.tlc("MCRace", RACE_CFG % ", ".join('"%s"' % n for n in names), d, workers=1, timeout=900, heap="8g", name="MCRace")
    m = re.search(r'<<"RACESET", (\{.*?\})>>\n', r.out, re.S)
    if not r.completed or not m:
        log("NOTE race-model: TLC did not complete on the extracted access programs (model-level result unavailable):\n" + r.out[-1500:])
        ctx.extra_cov["race_model"] = "unavailable"
        return []
    recs = re.findall(r'\[loc \|-> "([^"]*)", w_site \|-> "([^"]*)", w_prog \|-> "([^"]*)", w_held \|-> (\{.*?\}), o_kind \|-> "([^"]*)", o_site \|-> "([^"]*)", o_prog \|-> "([^"]*)", o_held \|-> (\{.*?\})\]', m.group(1), re.S)
    with open(os.path.join(vlib.VERIF, "benign_races.json")) as f:
        benign = {(b["loc"], b["writer"]) for b in json.load(f)["benign"]}
    allp, new = set(), {}
    for loc, ws, wp, wh, ok, os_, op, oh in recs:
        key = (loc, ws.split("@")[0], ok, os_.split("@")[0])
        allp.add(key)
        if (loc, ws.split("@")[0]) not in benign and key not in new:
            new[key] = dict(loc=loc, w_site=ws, w_prog=wp, w_held=re.sub(r"\s+", " ", wh), o_kind=ok, o_site=os_, o_prog=op, o_held=re.sub(r"\s+", " ", oh))
    ctx.mc_states += r.distinct
    ctx.mc_transitions += r.generated
    nacc = sum(len(o.get("acc") or []) for p in facts for o in p["ops"])
    ctx.extra_cov["race_model"] = {"programs": len(names), "states": r.distinct, "conflicting_pairs_compatible_locksets": len(allp), "in_justified_baseline": len(allp) - len(new), "outside_baseline": sorted("%s: %s / %s %s" % k for k in new)}
    log("  [race model] %d programs explored alone (%d states): %d conflicting access pairs with compatible lock sets, %d in the justified baseline, %d outside" % (len(names), r.distinct, len(allp), len(allp) - len(new), len(new)))
    for k, v in list(new.items())[:8]:
        log("    potential race on %s: written in %s holding %s / %s in %s holding %s" % (v["loc"], v["w_site"], v["w_held"], v["o_kind"], v["o_site"], v["o_held"]))
    return list(new.values())


def fld_name(n):
    for a, b in ((".", "_"), ("#", "_"), ("@", "_at_"), ("*", ""), ("(", ""), (")", ""), (":", "_")):
        n = n.replace(a, b)
    return n


LOCK_CFG = """SPECIFICATION %(spec)s
CONSTANTS
  T = %(T)d
  Entries = {%(entries)s}
  Flusher = "%(flusher)s"
  FlushRounds = %(rounds)d
  MaxBack = %(back)d
INVARIANTS TypeOK Balanced NoWaitCycle NoReentry LockOrder NoWaitUnderLock
%(props)s
"""


def check_C09(ctx, w):
    ctx.rule = ("the lock operations of EVERY exported entry point and spawned goroutine are extracted from the current source (type-aware AST walk, inlining, epsilon edges for skipped / repeated blocks and "
                "returns); TLC explores all interleavings of all pairs of distinct entry programs plus the flusher under Go's RWMutex semantics (announced writers block new readers); "
                "binding: lock operations recorded on real runs (site + entry point) must be paths of the extracted programs (SodLockTrace); the concurrent corpus runs with a progress watchdog; "
                "a case = one pair of entry programs; non-trivial = both take a lock")
    facts, tla, out = vlib.extract_facts(w.sub("facts"))
    log("  " + out)
    def fld(n):
        for a, b in ((".", "_"), ("#", "_"), ("@", "_at_"), ("*", ""), ("(", ""), (")", ""), (":", "_")):
            n = n.replace(a, b)
        return n
    sig = {}
    for p in facts:
        if p["ops"] and not p["name"].startswith("go@"):
            sig.setdefault(json.dumps([[(o["k"], o["m"]) for o in p["ops"]], p["eps"]]), []).append(fld(p["name"]))
    reps = sorted(v[0] for v in sig.values())
    gos = [fld(p["name"]) for p in facts if p["name"].startswith("go@") and p["ops"]]
    flusher = gos[0] if gos else ""
    ctx.extra_cov["entry_points"] = sum(1 for p in facts if not p["name"].startswith("go@"))
    ctx.extra_cov["entry_points_with_locks"] = sum(len(v) for v in sig.values())
    ctx.extra_cov["distinct_lock_programs"] = len(reps)
    ctx.extra_cov["goroutine_programs"] = gos
    ctx.extra_cov["lock_operations_extracted"] = sum(len(p["ops"]) for p in facts)

    def run(name, T, entries, rounds, back, spec="Spec", props="", timeout=1500, workers=vlib.NCPU):
        d = w.sub("lock-" + name)
        import shutil
        for f in os.listdir(vlib.SPEC):
            if f.endswith(".tla"):
                shutil.copy(os.path.join(vlib.SPEC, f), d)
        shutil.copy(tla, os.path.join(d, "SodLockFacts.tla"))     # the facts of THIS tree, not the committed snapshot
        cfg = LOCK_CFG % dict(spec=spec, T=T, entries=", ".join('"%s"' % e for e in entries), flusher=flusher, rounds=rounds, back=back, props=props)
        r = vlib.tlc("SodLock", cfg, d, workers=workers, timeout=timeout, heap="16g", name="SodLock_" + name)
        ctx.mc_states += r.distinct
        ctx.mc_transitions += r.generated
        log("  [lock %s] T=%d, %d entry programs, flusher rounds %d, loop repeats %d: %d distinct states, %d transitions, %.1fs%s" %
            (name, T, len(entries), rounds, back, r.distinct, r.generated, r.wall, "" if r.completed else "  ** " + (", ".join(r.violated) or ("deadlock" if r.deadlock else "not completed"))))
        return r
    results = [run("pairs", 2, reps, 1, ctx.q(0, 1))]
    writers = [e for e in reps if e in ("DB_InsertOrUpdate", "DB_Delete", "DB_All", "DB_Search", "Search_Collect", "DB_Get", "DB_Create", "DB_Close", "DB_FlushAllAndCommit")]
    if not ctx.quick:
        results.append(run("triples", 3, writers, 1, 0))
        results.append(run("live", 2, writers, 1, 0, spec="FairSpec", props="PROPERTY Returns", workers=8))
    ctx.nontrivial = set("%s|%s" % (a, b) for a in reps for b in reps if a <= b)
    ctx.samples.append({"entry_programs": reps[:6], "example": next((p for p in facts if p["name"] == "DB.InsertOrUpdate"), None)})
    bad = [r for r in results if not r.completed]
    # binding: recorded lock operations of real runs follow the extracted programs
    binp = vlib.build()
    uni = gen.universe(binp)
    tests = [gen.random_test(uni, ctx.rng, i, nops=20, p_query=0.1, p_reopen=0.1) for i in range(ctx.q(8, 40))]
    tests += [gen.async_test(uni, ctx.rng, i) for i in range(ctx.q(4, 20))]
    bd = w.sub("bind")
    vlib.write_ndjson(os.path.join(bd, "tests.ndjson"), tests)
    lp = os.path.join(bd, "locks.ndjson")
    vlib.sh([binp, "run", "-tests", os.path.join(bd, "tests.ndjson"), "-out", os.path.join(bd, "trace.ndjson"), "-work", bd, "-locktrace", lp], timeout=600)
    recs = vlib.read_ndjson(lp)
    expected = sum(len(r["ops"]) + 1 for r in recs)
    import shutil
    td = w.sub("bind-tlc")
    for f in os.listdir(vlib.SPEC):
        if f.endswith(".tla"):
            shutil.copy(os.path.join(vlib.SPEC, f), td)
    shutil.copy(tla, os.path.join(td, "SodLockFacts.tla"))
    cfg = 'SPECIFICATION Spec\nCONSTANTS\n  TraceFile = "%s"\n  Dev = {}\n  Expected = %d\nINVARIANTS Follows Ends\nPOSTCONDITION TraceAccepted\nCHECK_DEADLOCK FALSE\n' % (lp, expected)
    rb = vlib.tlc("SodLockTrace", cfg, td, workers=1, timeout=900, heap="6g")
    ctx.trace_states += rb.distinct
    ctx.tests += len(recs)
    ctx.events += expected
    ctx.extra_cov["lock_records_bound"] = len(recs)
    ctx.extra_cov["lock_operations_bound"] = expected - len(recs)
    ctx.extra_cov["entry_points_bound"] = sorted(set(r["entry"] for r in recs))
    log("  [bind] %d recorded calls (%d lock operations, %d entry points) follow the extracted programs: %s" %
        (len(recs), expected - len(recs), len(set(r["entry"] for r in recs)), "yes" if rb.ok() else "NO"))
    if not rb.ok():
        # the extraction misrepresents this tree: the design-level result does not apply; the verdict comes from the runs below
        ll = rb.last_l()
        log("NOTE model-drift: recorded lock operations are not a path of the extracted programs; the lock model is not applicable to this tree")
        if ll and ll <= len(recs):
            log("  first record not followed: %s" % json.dumps(recs[ll - 1])[:1500])
        ctx.extra_cov["model_drift"] = True
    # the concurrent corpus with the progress watchdog: a hang is the observation that confirms a model deadlock
    ct = [gen.conc_test(uni, ctx.rng, i, nthreads=4, nops=3, cfgs=[(False, True), (True, True), (True, False), (False, False)], hang=True) for i in range(ctx.q(300, 4000))]
    # every kind of reading call repeated against writers (a nested read lock blocks as soon as a writer arrives in between)
    ct += gen.reentry_tests(uni, ctx.rng, reps=ctx.q(150, 600))
    for t in ct:
        t["norecord"] = True      # results are not judged here (settings switches, calls after Close): only progress is
    for t in ct:
        t["cfg"]["thr"], t["cfg"]["tmo_ms"] = 1, 100
    shards = vlib.run_harness(binp, ct, w.sub("run-hang"), per_test_timeout="10s", max_hangs=2)
    ctx.tests += len(ct)
    hangs = 0
    unconfirmed = 0
    byid = {t["id"]: t for t in ct}
    for part, tp in shards:
        cur, lines = None, []
        for line in open(tp):
            e = json.loads(line)
            if e["ev"] == "reset":
                cur, lines = e.get("id"), []
            lines.append(line)
            if e["ev"] == "hang":
                if not confirm_hang(ctx, w, binp, byid.get(cur)):
                    unconfirmed += 1
                    continue
                hangs += 1
                f = vlib.Failure(cur, "NoHang", len(lines) - 1, e, list(lines), (e.get("stack") or "")[-1500:])
                record_failure(ctx, w, f, byid.get(cur), ["NoHang"], "watchdog")
    ctx.extra_cov["concurrent_programs_with_watchdog"] = len(ct)
    ctx.extra_cov["hangs_observed"] = hangs
    ctx.extra_cov["watchdog_stops_not_confirmed"] = unconfirmed
    log("  [hang] %d concurrent programs with an eager flusher under the progress watchdog: %d hangs" % (len(ct), hangs))
    if ctx.extra_cov.get("model_drift") and hangs == 0:
        # the extracted programs are not what the code executes: the design-level half of this check says nothing about
        # this tree.  That is never reported as "held" (it went unnoticed for three commits once, see DESIGN 11.4 #27)
        raise vlib.Inconclusive("model drift: the recorded lock operations are not a path of the extracted lock programs; no hang was observed either")
    if bad and not ctx.extra_cov.get("model_drift"):
        # a model counterexample: only a reproduced hang is a violation (never a model-only verdict)
        r = bad[0]
        if hangs == 0:
            log("the lock model of this tree has a counterexample (%s) that the concurrent corpus did not reproduce as a hang" % (", ".join(r.violated) or "deadlock"))
            log(r.out[-2500:])
            raise vlib.Inconclusive("lock-model counterexample not reproduced on the real code")


def check_C10(ctx, w):
    ctx.rule = ("every interleaving of foreground calls, clock ticks and flusher polls of the bounded async model (thresholds 1..2, timeouts 1..2 poll periods) replayed deterministically with the "
                "virtual clock (the rewritten time.Sleep of the flusher blocks until the driver advances time); random async histories with thresholds 1..4, timeouts 1..5, deletes of pending "
                "objects, FlushAll / FlushAllAndCommit / Commit, Close + reopen; after every tick the directory is walked independently")
    tests = []
    for thr, tmo in ([(1, 2), (2, 1)] if ctx.quick else [(1, 1), (1, 2), (2, 1), (2, 2)]):
        tests += mc_tests(ctx, w, "mc%d%d_" % (thr, tmo), slots=2, kvals=2, avals=1, maxbatch=1, maxops=ctx.q(4, 5), bfilter="NoBatch", get=False, flusher=True, thr=thr, tmo=tmo,
                          cfgs="AsyncCfgs", limit=ctx.q(1500, 15000), convert_kw=dict(thr=thr, tmo_ms=tmo * 100, vclock=True))
    tests += gen_tests(ctx, ctx.q(200, 3000), gen.async_test, "as", nops=ctx.q(14, 24))
    # Flush(o) / FlushAndCommit(o) of single objects at every position of every history of the bounded model (all settings; the
    # argument in three spellings), each followed by the sweeps and the close + reopen of the model
    # and Drop + Create on the live handle: nothing pending or cached of the dropped database may come back
    tests += mc_tests(ctx, w, "f1_", slots=2, kvals=2, avals=1, maxbatch=1, maxops=ctx.q(4, 5), bfilter="NoBatch", get=False, flushone=True, drop=True, repair=True, cfgs="AllCfgs", limit=ctx.q(3500, 40000))
    # Create again on the same handle with other settings (asynchronous before and after): the flusher of the new settings takes over
    tests += mc_tests(ctx, w, "sw_", slots=2, kvals=2, avals=1, maxbatch=1, maxops=ctx.q(4, 5), bfilter="NoBatch", get=False, flusher=True, switch=True, thr=2, tmo=2,
                      cfgs="AsyncCfgs", limit=ctx.q(1500, 15000), convert_kw=dict(thr=2, tmo_ms=200, vclock=True))
    # Drop + Create on the live handle, then the flusher of the re-created collection must work (threshold / timeout reached at a tick)
    tests += mc_tests(ctx, w, "drf_", slots=2, kvals=2, avals=1, maxbatch=1, maxops=ctx.q(4, 5), bfilter="NoBatch", get=False, flusher=True, drop=True, thr=1, tmo=2,
                      cfgs="AsyncCfgs", limit=ctx.q(1500, 15000), convert_kw=dict(thr=1, tmo_ms=200, vclock=True))
    # (deviation-guided: in the intended design the state after Drop + Create IS the initial state, so no history continues
    # after a Drop; exploring with the deviation DropKeepsMemory keeps them apart and yields the continuations)
    tests += mc_tests(ctx, w, "drg_", slots=2, kvals=2, avals=1, maxbatch=1, maxops=ctx.q(4, 5), bfilter="NoBatch", get=False, flusher=True, drop=True, thr=1, tmo=2,
                      cfgs="AsyncCfgs", limit=ctx.q(2000, 20000), convert_kw=dict(thr=1, tmo_ms=200, vclock=True), dev=("DropKeepsMemory",), check=False)
    # two collections created from one Schema value, a flusher each, under the virtual clock
    tests += gen_tests(ctx, ctx.q(100, 1500), gen.aux_async_test, "xas", nops=ctx.q(14, 24))
    # "Close (for every collection)": a second collection with pending writes of its own; FlushAll* of one collection, Close of both
    tests += aux_tests(ctx, ctx.q(150, 2000), nops=ctx.q(20, 35), cfgs=[(False, True), (True, True)], p_reopen=0.15, p_del=0.25)
    # a damaged asynchronous collection whose finder handle is repaired and kept: the flusher works for it too
    tests += gen_tests(ctx, ctx.q(60, 800), gen.damage_live_test, "dl")
    seq_pipeline(ctx, w, tests, ["Conf_C10", "Conf_X", "Conf_Drop", "Conf_C11"])
    multi_model(ctx, w)


MULTI_CFG = """SPECIFICATION Spec
CONSTANTS
  Slots = {%(slots)s}
  KVals = {0, 1}
  AVals = {0}
  VVals = {0, 1}
  BadV = 1
  MaxBatch = 1
  MaxOps = %(maxops)d
  Cfgs <- AllCfgs
  Thr = 1
  Tmo = 1
  WithFlusher = TRUE
  WithSwitch = FALSE
  WithGet = FALSE
  WithHandle = FALSE
  WithFlushOne = FALSE
  WithDrop = TRUE
  WithRepair = FALSE
  Dev = {%(dev)s}
  BatchFilter <- NoBatch
VIEW view
INVARIANTS BothOK
PROPERTIES CloseDurableA CloseDurableB Frame
CHECK_DEADLOCK FALSE
"""


def multi_model(ctx, w):
    """Design level, two collections in one database (spec/SodMulti.tla = two instances of SodImpl synchronised on Close,
    abandon, Drop and the clock): all invariants for both, Close durable for both, frame; the deviation in which Close
    flushes one collection only must break it."""
    kw = dict(slots=ctx.q("1", "1, 2"), maxops=ctx.q(3, 4))
    r = vlib.tlc("SodMulti", MULTI_CFG % dict(dev="", **kw), w.sub("multi"), workers=vlib.NCPU, timeout=1500, heap="10g")
    if not r.completed:
        raise vlib.Inconclusive("SodMulti.tla fails its own properties (model defect, not a verdict on the code):\n" + r.out[-2500:])
    ctx.mc_states += r.distinct
    ctx.mc_transitions += r.generated
    ctx.extra_cov["two_collection_model_states"] = r.distinct
    rd = vlib.tlc("SodMulti", MULTI_CFG % dict(dev='"CloseFlushesOne"', slots="1", maxops=3), w.sub("multi-dev"), workers=4, timeout=600, heap="4g")
    ctx.extra_cov["two_collection_model_detects_partial_close"] = bool(rd.prop_violated or rd.violated)
    log("  [SodMulti] two collections in one database: %d distinct states, invariants of both, Close durable for both, frame: hold; "
        "deviation CloseFlushesOne breaks it: %s" % (r.distinct, bool(rd.prop_violated or rd.violated)))


def check_C17(ctx, w):
    ctx.rule = ("settings part: every interleaving of writes, deletes, reads, Create with other cache / async settings (all 12 ordered pairs), clock ticks and flusher polls of the bounded model, "
                "replayed with the virtual clock, then close + reopen; shape part: every ordered pair of 9 struct shapes / constraint sets / extensions re-opened on a populated directory, every "
                "operation refused with the documented error and the directory byte-identical")
    tests = mc_tests(ctx, w, "sw", slots=2, kvals=2, avals=1, maxbatch=1, maxops=ctx.q(4, 5), bfilter="NoBatch", get=True, flusher=True, switch=True, thr=2, tmo=2,
                     cfgs="AllCfgs", limit=ctx.q(2500, 30000), convert_kw=dict(thr=2, tmo_ms=200, vclock=True))
    # deviation-guided generation: the intended design merges states that a faulty implementation
    # keeps apart (a cache that survives being switched off, pending writes that survive leaving async
    # mode); exploring the model WITH those deviations yields the histories that tell them apart
    tests += mc_tests(ctx, w, "swd", slots=2, kvals=2, avals=1, maxbatch=1, maxops=ctx.q(4, 5), bfilter="NoBatch", get=True, flusher=True, switch=True, thr=2, tmo=2,
                      cfgs="AllCfgs", limit=ctx.q(2500, 30000), convert_kw=dict(thr=2, tmo_ms=200, vclock=True), dev=("SwitchKeepsCache", "SwitchStrandsPending"), check=False)
    tests = [t for t in tests if any(o["op"] == "switch" for o in t["ops"])]
    for t in tests:
        t["ops"] += [{"op": "obs"}, {"op": "reopen", "close": True, "create": False}, {"op": "obs"}]
    seq_pipeline(ctx, w, tests, ["Conf_C17", "Conf_C10"])
    # shape part: all ordered pairs of 10 declarations of m.T x 3 storage configurations (+ extension change)
    binp = vlib.build()
    sd = w.sub("shapes")
    tp = os.path.join(sd, "shapes.ndjson")
    vlib.sh([binp, "shapes", "-out", tp, "-work", sd], timeout=600)
    known = [(k["id"], k["deviation"]) for k in load_known()["findings"] if k.get("status") == "known" and k["property"] == ctx.pid]
    failures, states, runs, hits = vlib.validate_trace(tp, ["NoPanic", "Conf_C17S"], w.sub("val-shapes"), known=known, max_fail=50)
    note_hits(ctx, hits)
    nshape = sum(1 for l in open(tp) if '"ev":"shape"' in l)
    ctx.trace_states += states
    ctx.events += nshape
    ctx.tests += nshape
    ctx.extra_cov["shape_pairs"] = nshape
    log("  [shapes] %d (declaration pair x configuration) cases validated by TLC" % nshape)
    for f in failures:
        # every pair is its own case: report each
        record_failure(ctx, w, f, None, ["Conf_C17S"], "SodTrace")


def check_C14(ctx, w):
    ctx.level = "exploration"
    ctx.rule = ("each of the 12 payload shapes (nil / empty / non-empty slices and maps, pointer chains, slices of pointers inside maps, interfaces holding maps, slices, pointers; "
                "nested struct behind a pointer) is written (single and batch paths), then the caller's object, objects returned by Get / All, and one of two reads of the same object are "
                "overwritten in place; TLC checks that every later sweep still equals the accepted values; distinct = distinct (payload shape, mutation kind, cache/async) combinations")
    tests = gen_tests(ctx, ctx.q(400, 40000), gen.isolation_test, "iso", nobj=ctx.q(4, 6))
    seq_pipeline(ctx, w, tests, ["Conf_C14"])
    combos = set()
    for t in tests:
        for o in t["ops"]:
            if o["op"] == "mutate":
                combos.add((o["what"], t["cfg"]["cache"], t["cfg"]["async"]))
    ctx.extra_cov["mutation_kind_x_config"] = len(combos)


def check_C18(ctx, w):
    ctx.rule = ("after every transition of the bounded model and in random histories (sync configurations: the directory is judged when nothing can be pending) an independent walk of the root "
                "directory (os.ReadDir, gzip, encoding/json only) is compared by TLC with the abstract map: directory name, schema.json, exactly one <uuid><ext>[.gz] file per object, decoded content")
    tests = mc_tests(ctx, w, "mc", slots=2, kvals=2, avals=2, maxbatch=2, maxops=ctx.q(3, 4), bfilter="PairBatch", get=False, limit=ctx.q(3000, 40000), cfgs="SyncCfgs")
    tests += rnd_tests(ctx, ctx.q(150, 2500), nops=ctx.q(25, 40), cfgs=[(False, False), (True, False)])
    # asynchronous configurations: the layout is judged once Close has returned
    tests += rnd_tests(ctx, ctx.q(150, 2500), nops=ctx.q(20, 40), cfgs=[(False, True), (True, True)], p_reopen=0.12, p_del=0.25, label="rasync")
    tests += aux_tests(ctx, ctx.q(100, 1500), nops=ctx.q(20, 35), p_reopen=0.12)
    for t in tests:
        t["ops"].append({"op": "reopen", "close": True, "create": False})
    seq_pipeline(ctx, w, tests, ["Conf_C18", "Conf_X"])
    # golden corpus: directories written by the pinned release (tools/mkgolden.py) are opened by the current code;
    # the abstract state is rebuilt from the writes the pinned release acknowledged, then sweeps, writes and a reopen follow
    import glob
    binp = vlib.build()
    uni = gen.universe(binp)
    gt = []
    for d in sorted(glob.glob(os.path.join(vlib.VERIF, "golden", "g*"))):
        meta = json.load(open(os.path.join(d, "meta.json")))
        g = gen.RandGen(uni, ctx.rng, nslots=8)
        for variant in range(ctx.q(2, 6)):
            ops = [{"op": "obs"}]
            for _ in range(3 + variant):
                ops.append(ctx.rng.choice([{"op": "put", "slot": g.slot(), "o": g.obj()}, {"op": "del", "slot": g.slot()}, g.batch()]))
            ops += [{"op": "obs"}, {"op": "reopen", "close": True, "create": variant % 2 == 0}, {"op": "obs"}]
            # the sweeps query the fields the recorded history varied (index keys written by the pinned release are used)
            try:
                varied = [f for f in json.load(open(os.path.join(d, "test.json")))["fields"] if f not in ("K", "S")]
            except (OSError, KeyError, ValueError):
                varied = []
            gt.append({"id": "%s-%d" % (os.path.basename(d), variant), "adopt": d, "cfg": meta["cfg"], "ops": ops,
                       "fields": ["K", "S"] + (varied or g.flds[:1])})
    seq_pipeline(ctx, w, gt, ["Conf_C01", "Conf_C02", "Conf_C03", "Conf_C04", "Conf_C13", "Conf_C18"], label="golden")
    ctx.extra_cov["golden_directories"] = len(set(t["adopt"] for t in gt))
    # directory names of 10 collection types with awkward names (acronyms, digits, underscore, non-ASCII) x LowercaseNames,
    # compared by TLC with the names the pinned release gives them (golden/names.json)
    nd = w.sub("names")
    vlib.sh([binp, "names", "-out", os.path.join(nd, "got.json"), "-work", nd], timeout=120)
    got = json.load(open(os.path.join(nd, "got.json")))
    want = json.load(open(os.path.join(vlib.VERIF, "golden", "names.json")))
    tp = os.path.join(nd, "names.ndjson")
    vlib.write_ndjson(tp, [{"ev": "reset", "id": "names"}, {"ev": "names", "got": got, "want": want}, {"ev": "end"}])
    fl, st, _, _ = vlib.validate_trace(tp, ["NoPanic", "Conf_C18"], w.sub("val-names"))
    ctx.trace_states += st
    ctx.extra_cov["type_names_checked"] = len(want)
    for f in fl:
        record_failure(ctx, w, f, None, ["Conf_C18"], "SodTrace")


def check_C19(ctx, w):
    ctx.level = "fault_enumeration"
    ctx.rule = ("argument part: the complete battery of (field, operator, value kind) triples - 13 fields x 11 operators (4 unknown) x 15 value kinds incl. nil, struct, bytes, bool, pointer, "
                "5 invalid patterns per string field, 9 unknown / partial field paths - on empty and non-empty, indexed and plain collections, each also as an And refinement and through One / Delete; "
                "a case is non-trivial when the triple is malformed")
    tests = gen_tests(ctx, ctx.q(12, 48), gen.args_test, "arg")
    seq_pipeline(ctx, w, tests, ["Conf_C19"])
    ctx.extra_cov["argument_triples_per_battery"] = 1600
    # file part: mutations of schema.json and of an object file, stray directory entries; 20-call battery on fresh handles
    binp = vlib.build()
    uni = gen.universe(binp)
    ct = gen.corrupt_tests(uni, ctx.rng, ctx.q(80, 0), ctx.q(40, 0), exhaustive=not ctx.quick)
    seq_pipeline(ctx, w, ct, ["Conf_C19F"], label="files")
    ctx.extra_cov["file_mutations"] = len(ct)
    if not ctx.quick:
        ctx.exhaustive = True


CHECKS = {"C09": check_C09, "C08": check_C08, "C17": check_C17, "C10": check_C10, "C05": check_C05, "C11": check_C11, "C14": check_C14, "C18": check_C18, "C19": check_C19, "C12": check_C12, "C01": check_C01, "C02": check_C02, "C03": check_C03, "C04": check_C04, "C06": check_C06, "C07": check_C07,
          "C13": check_C13, "C15": check_C15, "C16": check_C16, "C20": check_C20}

TECH = "TLA+ design model (SodImpl) explored exhaustively by TLC, one generated test per model transition replayed on the real code, every recorded trace validated by TLC against the trace specification (SodTrace) with the property's invariant"
META = {
    "C01": dict(level="model_checking", technique=TECH,
                text="TLC checks the refinement invariants (every read path = abstract map, under every cache/async setting) on all reachable states of the bounded design model; every transition of that model is executed on the real code and the recorded reads (Get twice, GetByUUID, Exist, Count, All incl. never-stored and deleted ids) are validated by TLC against the map rebuilt from acknowledged writes; seeded random histories extend to 8 objects and extreme values"),
    "C02": dict(level="model_checking", technique=TECH,
                text="after every transition of the bounded model (3 index values with ties, updates, deletes, reopen) the harness sweeps every operator x probe on every field; TLC evaluates Matches(q) of the specification over the same sweep's own listing and compares sets, lengths, duplicates; random And/Or chains and search-deletes on larger contents, indexed and plain struct"),
    "C03": dict(level="model_checking", technique=TECH,
                text="UniqueInv and 'rejected iff another object holds the canonical value' are invariants of the design model (TLC, exhaustive, 3 slots x 3 keys); on the real code TLC checks for every recorded single write that the class is the uniqueness error exactly when the rebuilt state has a conflict, and UniqueInv of the rebuilt state after every event, incl. reuse after delete/update and across reopen"),
    "C04": dict(level="model_checking", technique=TECH,
                text="ClosedDurable/SyncDurable are checked by TLC on the design model; every history of the bounded model gets close+reopen (with/without Create) or, in sync mode, abandonment at every position, with the complete sweep before and after compared by TLC (SameObs: listing, every lookup, every operator x probe, order by key, AssignIndex); random histories use 64-bit and nanosecond extremes"),
    "C06": dict(level="model_checking", technique=TECH,
                text="RefusedNoop (a refused call changes no variable) is an action property of the design model; on the real code every rejected write of every model transition is followed at once by the complete sweep, which TLC compares with the state rebuilt from acknowledged writes (reads, searches, order, Control when nothing can be pending); storage faults: design-level model SodFault (one failing file-system step per history; no trace / noticed and restorable / known shape K02 at its recorded position is an invariant, and the model exhibits K02 without the deviation) and a single injected fault at every file-system call of the last call of short histories on the real code, judged by TLC (FaultOK for failed calls, AbsorbedOK for calls that returned success) with the position of the fault recorded"),
    "C07": dict(level="model_checking", technique=TECH,
                text="BatchRefines (the code's validation rule lies between MustReject and MustAccept of the abstract statement) is checked by TLC on every reachable state x every batch of the bounded model; every such batch is executed on the real code and TLC checks n in {0,len}, mandatory rejection / acceptance, and, for Bulk, chunk-wise application in arrival order stopping at the first failing chunk"),
    "C13": dict(level="model_checking", technique=TECH,
                text="TLC checks on recorded eval/collect events that Collect of a single comparison or And-chain ending on an indexed field is an admissible prefix (LimitOK: non-increasing / Reverse non-decreasing, exactly min(n, matches), tie-agnostic), One = first element or the no-object error, AssignIndex = multiset of all values in non-increasing order (fresh and pre-filled targets); a kept search value is collected twice and refined after collection with Limit / Reverse tracked as its sticky settings; design-level model SodSearch (collecting is an observation, a refinement is a new value, CollectExact; the deviations of F31 and of a seeded change must break it)"),
    "C15": dict(level="model_checking", technique=TECH,
                text="ValidOK is an invariant of the design model; on the real code the driver's own Transform/Validate hooks log their calls and the values they see: TLC checks Transform-before-Validate per object, that Validate saw the transformed and canonicalised values, invalid <=> rejected with the invalid class, stored value = transformed value, on the single, batch and chunked paths"),
    "C16": dict(level="model_checking", technique=TECH,
                text="TLC checks on recorded traces that every stored and listed value of a case-constrained field is the canonical spelling of what was supplied (Canon idempotent by construction of the code space, self-checked by the harness with strings.ToUpper/ToLower), that probes in any spelling find the canonical value (indexed, unindexed, nested), and that uniqueness is judged on canonical values"),
    "C20": dict(level="model_checking", technique=TECH,
                text="SnapshotOK is an invariant of the design model, which also enumerates (operator, probe) x up to 2 later writes; on the real code every search is evaluated twice at the same instant, one twin collected at once and one after the writes: TLC checks ids subset of the evaluation-time matches, no duplicates, every undeleted match present, an error only if a match was deleted"),
}
META.update({
    "C05": dict(level="fault_enumeration", technique="file-system calls of every mutating call recorded on the real code; every crash prefix (writes torn into truncated / half / full) materialised and recovered by the real code; TLC validates CrashOK / CrashAsyncOK of SodTrace on each recovery observation; design level: spec/SodDisk.tla (synchronous protocol) and spec/SodDiskAsync.tla (asynchronous protocol: deletes, commits, flushes one file at a time in any order) model every call as its file-system steps and judge every reachable state as a crash point",
                text="exhaustive over the crash points of each explored history (process-crash model: completed system calls persist in order); TLC judges readable files, old-or-new per object, acknowledged objects intact, detected-or-agreeing, Repair converges and touches no file, state stable across Close and reload; asynchronous configurations are enumerated at the steps of deletes, flushes, commits and Close; the known findings are named deviations (StaleIndex, AsyncStaleIndex, AsyncUniqueClash) which the design models must exhibit when switched off and which explain every bad crash point of the bounded design when switched on"),
    "C11": dict(level="fault_enumeration", technique="every subset of file / index-entry / schema damage applied to small databases of the real code, recovery observed, TLC validates DamageOK of SodTrace; design level spec/SodRepair.tla (TLC, and TLAPS proofs for arbitrary constants in spec/proofs)",
                text="exhaustive (thorough tier) over subsets of removed files x removed index entries x added files x removed schema on databases of 0..3 objects; TLC checks corruption reported by first load and by Control iff indexed ids differ from file ids, Repair restores agreement without touching files, and the database keeps working"),
    "C12": dict(level="model_checking", technique="the same generated tests (model transitions + random histories + the argument battery) executed under a base and a variant configuration; TLC validates the pair of recordings event by event against SodPair",
                text="RefOK of the design model quantifies over cache/async; on the real code every test runs under sync/no-cache/plain-JSON/indexed and under cache, async, cache+async+extension, gzip+lower-case names, and the plain struct (fields not indexed), and TLC demands equal results (sets where no order is promised), equal error classes (invalid pattern, mistyped probe, unknown operator), equal Exist answers and equal Control once nothing is pending"),
    "C14": dict(level="exploration", technique="driver-enumerated payload shapes and in-place mutations of caller-side objects; TLC validates every later sweep against the accepted values (SodTrace Conf_C14)",
                text="the specification supplies the oracle (mutating caller memory is a stuttering step of the abstract map); the enumeration of shapes (12 payload shapes x nested pointer struct) and of mutation kinds (argument after store, result of Get, results of All, one of two reads) is the driver's"),
    "C18": dict(level="model_checking", technique=TECH + "; the directory is walked and decoded with os/gzip/encoding/json only",
                text="TLC checks DirOK after every transition of the bounded model in synchronous configurations: directory name as produced by the pinned release (snake case under lower-case names), schema.json, exactly one <uuid><ext>[.gz] file per stored object, independently decoded content equal to the accepted values, nothing else"),
    "C19": dict(level="fault_enumeration", technique="argument battery and file-mutation engine on the real code; TLC validates the recorded outcome classes (ArgOK / no panic) in SodTrace",
                text="argument part exhaustive over 13 fields x 11 operators x 15 value kinds (+ invalid patterns, unknown / partial paths, unsearchable fields) on empty / non-empty, indexed / plain collections; file part (thorough: exhaustive) truncation at every length, every single-bit flip, every JSON node replaced by 12 other values for schema.json and an object file (plain and gzip), 14 stray directory entries, each followed by a 20-call battery on fresh handles: never a panic or hang, never objects for a malformed query"),
})
META.update({
    "C10": dict(level="model_checking", technique=TECH + "; the flusher's time.Sleep is rewritten to a virtual clock so that TLC-enumerated interleavings of calls, ticks and flusher polls are replayed deterministically; Flush(o), Drop, Repair on a live handle and a second collection are actions / events of the models (SodImpl, SodMulti = two instances of SodImpl synchronised on Close, Drop and the clock; Conf_X)",
                text="PendingOK / FilesOK / ClosedDurable / FlushedDurable are invariants and action properties of the async design model (TLC, thresholds 1..2, timeouts 1..2); every history of that model is replayed with the virtual clock and TLC checks on the recorded trace: reads right after an accepted async write, after each tick at which the threshold or the timeout was reached everything accepted is on disk and the schema committed, the same after Close / FlushAllAndCommit (files only after FlushAll), a deleted pending object never on disk, the flusher exists"),
    "C17": dict(level="model_checking", technique=TECH + "; deviation-guided generation (the model explored with the named deviations switched on yields the histories that tell a faulty switch apart); declaration pairs enumerated by the driver and judged by TLC (ShapeOK)",
                text="settings part: Switch is an action of the design model (RefOK / PendingOK across all 12 ordered pairs of cache/async settings, with flusher and clock); every history with a switch is replayed with the virtual clock and followed by close + reopen; shape part: all ordered pairs of 10 declarations of the same type name (field added / removed / retyped / nested, index, unique, case constraint changed, identical) x 3 storage configurations + extension change: every operation refused with the documented error and the directory byte-identical, compatible Create idempotent and data preserving"),
})
META.update({
    "C08": dict(level="model_checking", technique="concurrent executions of the real code recorded as invocation / return histories; TLC searches a linearization of every history against the abstract map (spec/SodLin.tla: Invoke / Linearize / Return, searches as two calls); the same programs run under the Go race detector with no driver-side synchronisation; race model: accesses to shared fields extracted from the source, lock sets computed by TLC on spec/SodLock.tla (T = 1), pairs outside a justified baseline steer a larger race-detector corpus; concurrent Drop + Create judged by the final state (spec/SodFinal.tla)",
                engine="tlc-lin",
                text="result part: TLC decides, for every recorded history of 3-4 goroutines, whether some order of linearization points respecting real-time order explains every returned result and the final state (exhaustive search over linearization points per history); memory part: the race detector's report on real runs of the same generator (plus And/Or chains, flushes, Control, AssignIndex, settings switches, first access after reopen, active flusher) is the observation; any report or goroutine panic is a violation"),
})
META.update({
    "C09": dict(level="model_checking", engine="tlc-lock",
                technique="lock programs of every exported entry point and spawned goroutine extracted from the current source (tools/extract) into SodLockFacts.tla; TLC explores all interleavings of all pairs (thorough: triples) plus the flusher under Go RWMutex semantics in spec/SodLock.tla; extracted programs bound to the code by validating recorded lock operations against them (spec/SodLockTrace.tla); counterexamples must be reproduced as hangs of the real code",
                text="TLC checks, for every pair of distinct entry programs of the CURRENT tree and the background flusher, over all interleavings: no goroutine ever waits for itself or for a goroutine that waits forever (NoWaitCycle), no re-entry of a held lock (the announced-writer deadlock), lock order handle < store < map < schema loading, balanced programs, and (thorough) every call returns under weak fairness; the facts are regenerated from the source at every run and tied to the binary by trace validation of the lock operations of real runs (call sites + entry points); a model counterexample alone never yields a violation: a hang under the watchdog does"),
})
NOT_YET = {
    "C09": "lock model (SodLock) not built yet in this round",
}


# --------------------------------------------------------------------------- driver

def run_check(pid, tier, seed):
    if pid not in CHECKS:
        print("no check for", pid)
        return 2
    ctx = Ctx(pid, tier, seed)
    rc = 0
    try:
        with vlib.Work(pid) as w:
            CHECKS[pid](ctx, w)
    except vlib.Inconclusive as e:
        log("INCONCLUSIVE:", str(e)[:6000])
        write_evidence(ctx, inconclusive=str(e)[:500])
        return 2
    except Exception as e:
        # a failure of the machinery itself is never a verdict on the code
        import traceback
        log("INCONCLUSIVE (machinery failure):", traceback.format_exc()[-3000:])
        write_evidence(ctx, inconclusive="machinery failure: " + repr(e)[:400])
        return 2
    if vlib.SHARD_TIMEOUTS and not ctx.failures:
        msg = "%d shard(s) of real-code executions ran out of time before finishing their tests; nothing they completed violates the property" % len(vlib.SHARD_TIMEOUTS)
        log("INCONCLUSIVE:", msg)
        write_evidence(ctx, inconclusive=msg)
        return 2
    write_evidence(ctx)
    if ctx.failures:
        rc = 1
    log("%s %s: %d tests / %d events on the real code, %d violations, %d known findings, %.1fs" %
        (pid, tier, ctx.tests, ctx.events, len(ctx.failures), len(ctx.known_hits), time.time() - ctx.t0))
    return rc


def write_evidence(ctx, inconclusive=None):
    os.makedirs(os.path.join(vlib.VERIF, "evidence"), exist_ok=True)
    cov = {
        "states": ctx.mc_states + ctx.trace_states,
        "transitions": ctx.mc_transitions + ctx.trace_states,
        "design_model_states": ctx.mc_states,
        "design_model_transitions": ctx.mc_transitions,
        "trace_states_checked": ctx.trace_states,
        "traces_validated_against_impl": ctx.tests,
        "evaluations": ctx.events,
        "distinct_nontrivial": len(ctx.nontrivial),
        "rule": ctx.rule,
        "samples": ctx.samples or [{"note": "no test was run"}],
        "exhaustive": ctx.exhaustive,
        "known_findings_hit": sorted(ctx.known_hits),
    }
    cov.update(ctx.extra_cov)
    if inconclusive:
        cov["inconclusive"] = inconclusive
    ev = {"property_id": ctx.pid, "tier": ctx.tier, "seed": ctx.seed, "level": ctx.level, "coverage": cov,
          "assumptions": ctx.assumptions or ["the harness projects Go values to integer codes correctly (universe order checked at start-up)",
                                              "TLC evaluates the invariants of spec/SodTrace.tla correctly"],
          "wall_s": round(time.time() - ctx.t0, 1), "violations": len(ctx.failures)}
    # evidence describes /repo itself: a run against another tree (VERIF_REPO: pinned / seeded worktrees) never touches it
    edir = os.path.join(vlib.VERIF, "evidence") if os.path.realpath(vlib.REPO) == "/repo" else os.path.join(vlib.VERIF, ".work", "evidence-other-tree")
    os.makedirs(edir, exist_ok=True)
    with open(os.path.join(edir, ctx.pid + ".json"), "w") as f:
        json.dump(ev, f, indent=1)
