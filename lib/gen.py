"""Test generation: TLC-enumerated histories of the design model (SodImpl) and
seeded random histories, both converted to the harness's operation format."""
import json, os, random, subprocess
from . import vlib

_uni = None


def universe(binp):
    global _uni
    if _uni is None:
        _uni = json.loads(subprocess.run([binp, "universe"], stdout=subprocess.PIPE, text=True, check=True).stdout)
    return _uni


# --------------------------------------------------------------------------- TLC generation

GEN_CFG = """SPECIFICATION Spec
CONSTANTS
  Slots = {%(slots)s}
  KVals = {%(kvals)s}
  AVals = {%(avals)s}
  VVals = {0, 1}
  BadV = 1
  MaxBatch = %(maxbatch)d
  MaxOps = %(maxops)d
  Cfgs <- %(cfgs)s
  Thr = %(thr)d
  Tmo = %(tmo)d
  WithFlusher = %(flusher)s
  WithSwitch = %(switch)s
  WithGet = %(get)s
  WithHandle = %(handle)s
  WithFlushOne = %(flushone)s
  WithDrop = %(drop)s
  WithRepair = %(repair)s
  Dev = {%(dev)s}
  OutFile = "%(out)s"
  BatchFilter <- %(bfilter)s
VIEW view
%(emit)s
%(invs)s
CHECK_DEADLOCK FALSE
"""

IMPL_INVS = "INVARIANTS TypeOK RefOK IndexAgree ExistOK UniqueOK ValidOK SyncDurable FilesOK PendingOK BatchRefines ControlOK\nPROPERTIES ClosedDurable FlushedDurable RefusedNoop"


def impl_cfg(slots=2, kvals=2, avals=2, maxbatch=2, maxops=3, cfgs="AllCfgs", thr=2, tmo=1, flusher=False,
             switch=False, get=True, handle=False, dev=(), out="", bfilter="AnyBatch", check=True, flushone=False, drop=False, repair=False):
    return GEN_CFG % dict(
        slots=", ".join(str(i) for i in range(1, slots + 1)), kvals=", ".join(str(i) for i in range(kvals)),
        avals=", ".join(str(i) for i in range(avals)), maxbatch=maxbatch, maxops=maxops, cfgs=cfgs, thr=thr, tmo=tmo,
        flusher="TRUE" if flusher else "FALSE", switch="TRUE" if switch else "FALSE", get="TRUE" if get else "FALSE", handle="TRUE" if handle else "FALSE", flushone="TRUE" if flushone else "FALSE", drop="TRUE" if drop else "FALSE", repair="TRUE" if repair else "FALSE",
        dev=", ".join('"%s"' % d for d in dev), out=out, bfilter=bfilter,
        emit="ACTION_CONSTRAINT Emit" if out else "", invs=IMPL_INVS if check else "")


def mc_generate(wdir, timeout=900, **kw):
    """Explore SodImpl breadth-first, checking the design invariants, and emit
    one history per generated transition.  Returns (histories, TlcResult)."""
    out = os.path.join(wdir, "gen.ndjson")
    if os.path.exists(out):
        os.remove(out)
    cfg = impl_cfg(out=out, **kw)
    r = vlib.tlc("MCImpl", cfg, wdir, workers=1, timeout=timeout, heap="6g", name="MCImpl_gen")
    if not r.completed:
        raise vlib.Inconclusive("design model run did not complete:\n" + r.out[-3000:])
    hists = []
    seen = set()
    if os.path.exists(out):
        with open(out) as f:
            for line in f:
                line = line.strip()
                if not line or line in seen:
                    continue
                seen.add(line)
                hists.append(json.loads(json.loads(line)))
    return hists, r


def mc_simulate(wdir, num=1000, depth=60, seed=1, timeout=900, **kw):
    """Random walks of the design model (tlc -simulate) with larger constants: long histories whose every
    state still satisfies the design invariants; each completed walk is written out as one history."""
    out = os.path.join(wdir, "sim.ndjson")
    os.makedirs(wdir, exist_ok=True)
    if os.path.exists(out):
        os.remove(out)
    cfg = impl_cfg(out=out, **kw).replace("ACTION_CONSTRAINT Emit", "").replace("INVARIANTS TypeOK", "INVARIANTS EmitDeep TypeOK")
    r = vlib.tlc("MCImpl", cfg, wdir, workers=1, timeout=timeout, heap="6g", name="MCImpl_sim",
                 extra=("-simulate", "num=%d" % num, "-depth", str(depth), "-seed", str(seed)))
    if r.violated or r.prop_violated or r.exception:
        raise vlib.Inconclusive("design model simulation failed:\n" + r.out[-3000:])
    hists, seen = [], set()
    if os.path.exists(out):
        with open(out) as f:
            for line in f:
                line = line.strip()
                if line and line not in seen:
                    seen.add(line)
                    hists.append(json.loads(json.loads(line)))
    return hists, r


def mc_check(wdir, workers=vlib.NCPU, timeout=1800, **kw):
    """Exhaustive check of the design invariants (no emission)."""
    cfg = impl_cfg(out="", **kw)
    return vlib.tlc("MCImpl", cfg, wdir, workers=workers, timeout=timeout, heap="12g", name="MCImpl_chk")


# --------------------------------------------------------------------------- palettes

# rank -> code, per field; every list is increasing (order-preserving)
PALETTES = [
    dict(name="small", K=[6, 7, 8, 9], A=[4, 5, 6, 7], U=[1, 2, 3, 4], F=[5, 6, 7, 8], T=[3, 4, 5, 6], E=[3, 4, 5, 6], PX=[3, 4, 5, 6], Z=[1, 3, 4, 5], Sc=[1, 3, 7, 9], Nc=[1, 3, 7, 9]),
    dict(name="big", K=[27, 28, 29, 30], A=[11, 12, 13], U=[8, 9, 10, 11], F=[11, 12, 13], T=[8, 9, 10, 11], E=[4, 5, 6, 7], PX=[2, 4, 5, 6], Z=[6, 7, 8, 9], Sc=[2, 4, 8, 10], Nc=[2, 4, 8, 10]),
    dict(name="neg", K=[0, 1, 2, 3], A=[0, 1, 2, 3], U=[0, 1, 8, 9], F=[0, 1, 2, 3], T=[0, 1, 2, 3], E=[0, 1, 2, 3], PX=[0, 1, 2, 3], Z=[0, 1, 2, 3], Sc=[0, 1, 2, 3], Nc=[0, 1, 2, 3]),
    dict(name="edge", K=[5, 26, 27, 31], A=[3, 10, 12, 13], U=[0, 7, 9, 11], F=[2, 3, 4, 13], T=[1, 2, 9, 10], E=[0, 2, 6, 7], PX=[1, 2, 3, 6], Z=[0, 3, 4, 9], Sc=[0, 5, 12, 20], Nc=[0, 5, 10, 20]),
]
# which derived fields accompany K / A in a test (keeps the sweep affordable)
EXTRA = [("U", "F"), ("T", "E"), ("PX", "N"), ("Z", "S"), ("N", "F"), ("T", "Z"), ("U", "PX"), ("E", "S")]
# storage dimensions besides cache / async: a pairwise covering array over (gz, lc, ext, plain)
# (compress, lower-case names, extension: 0 ".json" / 1 ".dat" / 2 ".j.gz" - an extension that itself ends in .gz - / 3 none at all, plain struct)
STORAGE = [(0, 0, 0, 0), (1, 1, 0, 0), (0, 0, 1, 1), (1, 0, 1, 0), (0, 1, 0, 1), (1, 0, 0, 1), (0, 1, 1, 0), (1, 1, 1, 1), (1, 0, 2, 0), (0, 1, 2, 1),
           (0, 0, 3, 0), (1, 1, 3, 1)]


def case_code(uni, field, cls, variant):
    nv = uni["variants"][field][cls]
    return cls * uni["casemul"] + (variant % nv)


def make_cfg(cache, asyn, storage, thr=100000, tmo_ms=3600000):
    gz, lc, ext, plain = STORAGE[storage % len(STORAGE)]
    return dict(cache=bool(cache), **{"async": bool(asyn)}, thr=thr, tmo_ms=tmo_ms, gz=bool(gz), lc=bool(lc),
                ext=[".json", ".dat", ".j.gz", "-"][ext], plain=bool(plain))


def conv_obj(uni, o, pal, extra, n):
    """Model object [K, A, V] -> harness codes.  n varies spellings / invalid flavours."""
    P = PALETTES[pal % len(PALETTES)]
    v = {"K": P["K"][o["K"]], "A": P["A"][o["A"] % len(P["A"])]}
    ex = EXTRA[extra % len(EXTRA)]
    a, k = o["A"], o["K"]
    for f in ex:
        if f == "S":
            v["S"] = case_code(uni, "S", P["Sc"][k], n)
        elif f == "N":
            v["N"] = case_code(uni, "N", P["Nc"][a % len(P["Nc"])], n)
        else:
            v[f] = P[f][a % len(P[f])]
    if "S" not in v:
        # S is unique: derive it injectively from K so that it conflicts exactly when K does
        v["S"] = case_code(uni, "S", P["Sc"][k], n + 1)
    zero = uni["zero"]
    if o.get("V", 0) == 1:      # the model's invalid object, in four flavours
        flav = n % 4
        if flav == 0:
            v["V"] = uni["inv"]["V"]
        elif flav == 1:
            v["V"] = uni["tr"]["V"][0]          # Transform maps it onto the invalid value
        elif flav == 2:
            v["W"] = uni["inv"]["W"]
        else:
            v["W"] = uni["inv"]["W"] + 1        # a non-canonical spelling of the invalid value
    else:
        v["V"] = [zero["V"], zero["V"] + 1, zero["V"] + 2, zero["V"] + 3][n % 4]     # 3: the driver's Transform is not idempotent on it (3 -> 2 -> 1)
        if n % 5 == 3:
            v["W"] = uni["tr"]["W"][0]          # "q": Transform makes it "R", the schema "r"
    v["pl"] = n % uni["payloads"]
    return v


def convert(uni, hist, idx, obs_around_reopen=True, pal=None, storage=None, extra=None, thr=100000, tmo_ms=3600000, vclock=False):
    """A TLC history -> a harness test."""
    head, ops = hist[0], hist[1:]
    pal = idx % len(PALETTES) if pal is None else pal
    extra = (idx // len(PALETTES)) % len(EXTRA) if extra is None else extra
    storage = (idx // 3) % len(STORAGE) if storage is None else storage
    out = []
    n = idx
    nh = 0
    for op in ops:
        n += 1
        k = op["op"]
        if k == "put":
            out.append({"op": "put", "slot": op["slot"], "o": conv_obj(uni, op["o"], pal, extra, n)})
        elif k == "many":
            b = []
            for j, ent in enumerate(op["batch"]):
                b.append({"slot": ent["slot"], "o": conv_obj(uni, ent["o"], pal, extra, n + j)})
            out.append({"op": "many", "batch": b, "csize": op.get("csize", 0)})
        elif k == "del":
            out.append({"op": "del", "slot": op["slot"]})
        elif k == "delall":
            out.append({"op": "delall"})
        elif k == "delsearch":
            q = op["q"][0]
            P = PALETTES[pal]
            out.append({"op": "delsearch", "q": [{"f": q["f"], "op": q["op"], "p": P[q["f"]][q["p"] % len(P[q["f"]])]}]})
        elif k == "get":
            out.append({"op": "obs", "light": True})
        elif k == "reopen":
            if obs_around_reopen:
                out.append({"op": "obs"})
            out.append({"op": "reopen", "close": op["close"], "create": op["create"]})
            if obs_around_reopen:
                out.append({"op": "obs"})
        elif k == "flush":
            out.append({"op": "flush", "what": op["what"]})
        elif k == "flushone":
            # the object handed to Flush only identifies what to flush: three spellings of the argument
            out.append({"op": "flushone", "slot": op["u"], "commit": op["commit"], "what": ["same", "dirty", "blank"][n % 3]})
        elif k == "eval2":
            q = op["q"][0]
            P = PALETTES[pal]
            qq = [{"f": q["f"], "op": q["op"], "p": P[q["f"]][q["p"] % len(P[q["f"]])]}]
            nh += 2
            out.append({"op": "eval", "h": nh, "q": qq})
            out.append({"op": "eval", "h": nh + 1, "q": qq})
            out.append({"op": "collect", "h": nh, "lim": -1, "what": "collect"})
        elif k == "collect2":
            out.append({"op": "collect", "h": nh + 1, "lim": -1, "what": "collect"})
        elif k in ("tick", "poll"):
            out.append({"op": "tick"})
            vclock = True
        elif k == "switch":
            out.append({"op": "switch", "cfg": {"cache": op["cache"], "async": op["async"], "thr": thr, "tmo_ms": tmo_ms}})
            if n % 3 == 0:
                out[-1]["what"] = "gz"      # the Create also asks for the opposite compression (ignored on an existing collection)
            vclock = True
        elif k == "drop":
            out.append({"op": "drop", "cfg": {"cache": op["cache"], "async": op["async"]}})
        elif k == "repair":
            out.append({"op": "repair"})
        else:
            raise ValueError("unknown model op " + k)
    t = {"id": "mc%d" % idx, "cfg": make_cfg(head["cache"], head["async"], storage, thr=thr, tmo_ms=tmo_ms), "ops": out}
    if vclock:
        t["vclock"] = True
    return t


def dedupe_histories(hists):
    """Group identical operation sequences emitted under several settings."""
    by = {}
    for h in hists:
        key = json.dumps(h[1:], sort_keys=True)
        by.setdefault(key, []).append(h[0])
    return [(json.loads(k), heads) for k, heads in by.items()]


# --------------------------------------------------------------------------- random histories

QOPS = ["=", "!=", "<", "<=", ">", ">="]
IDX_FIELDS = ["A", "U", "F", "N", "T", "E", "PX", "Z", "O", "Y"]
PATTERNS = ["^a", "b$", ".", "^$", "a|z", "^A", "B"]


class RandGen:
    """Seeded generator of objects, probes and query chains over the value universes."""

    def __init__(self, uni, rng, pal=None, fields=None, case_heavy=False, nslots=8):
        self.uni, self.rng = uni, rng
        self.sizes = uni["sizes"]
        self.pal = rng.randrange(len(PALETTES)) if pal is None else pal
        self.flds = fields or rng.sample(IDX_FIELDS, 3)
        self.case_heavy = case_heavy
        self.nslots = nslots

    def val(self, f, narrow=True):
        rng, sizes, uni = self.rng, self.sizes, self.uni
        # values concentrate on a small window so that ties and conflicts are frequent
        if f in ("S", "N", "W", "PY", "R"):
            ncls = sizes[f]
            cls = rng.randrange(min(ncls, 6)) if narrow else rng.randrange(ncls)
            if f == "S":
                cls = rng.randrange(min(ncls, 10))
            return case_code(uni, f, cls, rng.randrange(4) if (self.case_heavy or rng.random() < 0.4) else 0)
        n = sizes[f]
        if f == "K":
            base = PALETTES[self.pal]["K"][0]
            return min(n - 1, base + rng.randrange(7)) if rng.random() < 0.85 else rng.randrange(n)
        if f == "V":
            return rng.choice([1, 1, 2, 3, 4, 5, 6, 7]) if rng.random() < 0.25 else rng.choice([1, 2, 3, 4])
        w = min(n, 5)
        lo = min(n - w, PALETTES[self.pal].get(f, [0])[0])
        return lo + rng.randrange(w) if rng.random() < 0.85 else rng.randrange(n)

    def obj(self, valid_only=False):
        rng, uni = self.rng, self.uni
        o = {"K": self.val("K"), "S": self.val("S")}
        for f in self.flds:
            o[f] = self.val(f)
        o["V"] = rng.choice([1, 2, 3, 4]) if valid_only else self.val("V")
        if rng.random() < 0.3 and not valid_only:
            o["W"] = rng.choice([uni["inv"]["W"], uni["inv"]["W"] + 1, uni["tr"]["W"][0], case_code(uni, "W", rng.randrange(6), rng.randrange(3))])
        elif rng.random() < 0.3:
            o["W"] = case_code(uni, "W", rng.randrange(6), rng.randrange(3))
        if rng.random() < 0.3:
            o["PY"] = self.val("PY")
        if "PX" in o or "PY" in o:
            if rng.random() < 0.25:
                o.pop("PX", None)
                o.pop("PY", None)
                o["Pn"] = 1
        o["pl"] = rng.randrange(uni["payloads"])
        return o

    def slot(self):
        return self.rng.randrange(1, self.nslots + 1)

    def cmp(self, fields=None, conn=""):
        rng = self.rng
        f = rng.choice(fields or (["K", "S", "V", "W"] + self.flds))
        c = {"f": f, "op": rng.choice(QOPS), "p": self.val(f)}
        if f in ("S", "N", "W", "PY", "Z", "R") and rng.random() < 0.2:
            c = {"f": f, "op": "~=", "pat": rng.choice(PATTERNS), "p": 0}
        if conn:
            c["conn"] = conn
        return c

    def chain(self, depth=None, last_indexed=None, conns=("and", "or")):
        rng = self.rng
        spell = {"and": ["and", "and", "&&", "AND", "And"], "or": ["or", "or", "||", "OR", "Or"]}
        if depth is None and last_indexed is None and rng.random() < 0.3:
            # every comparison on the SAME field (ranges, unions of ranges refined again: "(F > a Or F < b) And F >= c"):
            # the operands of a refinement then come from one index, in whatever order the union left them
            f = rng.choice(["K", "S"] + self.flds)
            q = [self.cmp(fields=[f])]
            for i in range(1, rng.choice([2, 3, 3, 4])):
                q.append(self.cmp(fields=[f], conn=rng.choice(spell[rng.choice(conns)])))
            return q
        depth = depth or rng.choice([1, 1, 2, 2, 3])
        q = [self.cmp()]
        for i in range(1, depth):
            q.append(self.cmp(conn=rng.choice(spell[rng.choice(conns)])))
        if last_indexed:
            q[-1] = dict(self.cmp(fields=last_indexed), **({"conn": q[-1]["conn"]} if "conn" in q[-1] else {}))
        return q

    def batch(self):
        rng = self.rng
        n = rng.randrange(1, 6)
        b = []
        for j in range(n):
            s = self.slot()
            if rng.random() < 0.1 and b:
                # the very same object twice: its Transform legitimately runs twice, so keep it off the value on
                # which the driver's Transform is not idempotent (the oracle applies Transform once per object)
                if b[0]["o"].get("V") == self.uni["zero"]["V"] + 3:
                    b[0]["o"]["V"] = self.uni["zero"]["V"] + 1
                b.append({"slot": b[0]["slot"], "same_as": 1})
                continue
            if rng.random() < 0.04 and b:
                b.append({"slot": 0, "other": True})
                continue
            b.append({"slot": s, "o": self.obj()})
        return {"op": "many", "batch": b, "csize": rng.choice([0, 0, 0, 1, 2, 3])}


# custom schemas (harness: custom()): which fields get other constraints than their struct tags
CUST_FIELDS = {1: ["A"], 2: ["U"], 3: ["V"], 4: ["F", "E"], 5: ["V", "Z"], 6: ["Z"], 7: ["R"], 8: ["Z"], 9: ["T"]}


def random_test(uni, rng, idx, nops=40, nslots=8, p_reopen=0.06, p_batch=0.12, p_del=0.15, cfgs=None, pal=None, fields=None,
                case_heavy=False, p_query=0.0, abandon=False, p_bad=0.0, max_chain=2, cust=None):
    g = RandGen(uni, rng, pal=pal, fields=fields, case_heavy=case_heavy, nslots=nslots)
    # three histories in eight run under a custom schema: "any subset of fields indexed / unique"
    cust = rng.choice([0, 0, 0, 0, 0, 0, 0, 1, 2, 3, 4, 5, 6, 6, 7, 7, 8]) if cust is None else cust
    cf = CUST_FIELDS.get(cust, [])
    g.flds = g.flds + [f for f in cf if f != "V" and f not in g.flds]
    c = rng.choice(cfgs) if cfgs else (rng.random() < 0.5, rng.random() < 0.35)
    ops = []
    for _ in range(nops):
        x = rng.random()
        if x < p_reopen:
            ops.append({"op": "obs"})
            ops.append({"op": "reopen", "close": True if (c[1] or not abandon) else rng.random() < 0.5, "create": rng.random() < 0.5})
            ops.append({"op": "obs"})
        elif x < p_reopen + p_batch:
            ops.append(g.batch())
        elif x < p_reopen + p_batch + p_del:
            y = rng.random()
            if y < 0.7:
                ops.append({"op": "del", "slot": g.slot()})
            elif y < 0.78:
                ops.append({"op": "delall"})
            else:
                ops.append({"op": "delsearch", "q": g.chain(depth=rng.choice([1, 1, max_chain]))})
        elif x < p_reopen + p_batch + p_del + 0.01:
            ops.append({"op": "repair"})          # Repair on the live, healthy handle: nothing changes
        elif x < p_reopen + p_batch + p_del + 0.08:
            ops.append({"op": "obs", "light": rng.random() < 0.5})
        elif x < p_reopen + p_batch + p_del + 0.08 + p_query:
            ops.append({"op": "obs", "light": True, "qs": [g.chain() for _ in range(6)]})
        else:
            ops.append({"op": "put", "slot": g.slot(), "o": g.obj()})
            if p_bad and rng.random() < p_bad:
                ops[-1]["bad"] = rng.choice(["nan", "inf", "chan"])
                ops[-1]["o"]["V"] = 2
                ops[-1]["o"].pop("W", None)
    cfg = dict(make_cfg(c[0], c[1], rng.randrange(len(STORAGE))), cust=cust)
    if not c[1] and rng.random() < 0.2:
        cfg["asyncoff"] = True       # synchronous, with asynchronous-write settings present but switched off
    t = {"id": "rnd%d" % idx, "cfg": cfg, "ops": ops,
            "fields": ["K", "S"] + g.flds + (["V"] if "V" in cf else [])}
    if rng.random() < 0.25:
        t["ownids"] = True           # new objects of even slots come with an identifier chosen by the caller (upper-case hex)
    return t


def aux_async_test(uni, rng, idx, nops=16):
    """C10, two collections with a flusher each, driven by the virtual clock: writes on both, ticks, explicit flushes, Close."""
    g = RandGen(uni, rng, nslots=4)
    tmo = rng.choice([1, 2, 3])
    ops = []
    for _ in range(nops):
        x = rng.random()
        if x < 0.25:
            ops.append({"op": "put", "slot": g.slot(), "o": g.obj(valid_only=True)})
        elif x < 0.5:
            ops.append({"op": "xput", "slot": rng.randrange(1, 4), "k": rng.randrange(5), "a": rng.randrange(3)})
        elif x < 0.58:
            ops.append({"op": "xdel", "slot": rng.randrange(1, 4)})
        elif x < 0.64:
            ops.append({"op": "del", "slot": g.slot()})
        elif x < 0.9:
            ops.append({"op": "tick"})
        elif x < 0.95:
            ops.append({"op": "obs", "light": True})
        else:
            ops.append({"op": "reopen", "close": True, "create": True})
    ops += [{"op": "tick"}] * (tmo + 1)
    return {"id": "xas%d" % idx, "cfg": make_cfg(rng.random() < 0.5, True, rng.randrange(len(STORAGE)), thr=100000, tmo_ms=tmo * 100), "ops": ops,
            "fields": ["K", "S"], "vclock": True, "aux": True}


def with_aux(t, rng, p=0.25, nslots=4, nkeys=5):
    """Interleave operations on a second collection of the same database (harness/aux.go) into a sequential test.
    Returns the test unchanged when it uses features the second collection is kept out of (virtual clock, settings
    switches, engines that materialise directories, abandoning a handle with asynchronous writes)."""
    if t.get("vclock") or t.get("threads") or t.get("adopt") or t.get("crash_all"):
        return t
    for o in t["ops"]:
        if o["op"] in ("switch", "tick", "damage", "corrupt", "args") or o.get("crash") or o.get("fault"):
            return t
        if o["op"] == "reopen" and t["cfg"]["async"] and not o.get("close"):
            return t
    ops = []
    def some():
        x = rng.random()
        if x < 0.6:
            return {"op": "xput", "slot": rng.randrange(1, nslots + 1), "k": rng.randrange(nkeys), "a": rng.randrange(3)}
        if x < 0.85:
            return {"op": "xdel", "slot": rng.randrange(1, nslots + 1)}
        return {"op": "xflush", "what": rng.choice(["all", "allcommit"])}
    ops.append(some())
    for o in t["ops"]:
        ops.append(o)
        while rng.random() < p:
            ops.append(some())
    return dict(t, ops=ops, aux=True)


def order_test(uni, rng, idx, nobj=8, nq=8, cfgs=None):
    """C13: a collection with ties, then searches ending on an indexed field collected with Reverse / Limit / One."""
    g = RandGen(uni, rng, nslots=nobj)
    c = rng.choice(cfgs) if cfgs else (rng.random() < 0.5, rng.random() < 0.3)
    ops = [{"op": "put", "slot": s, "o": g.obj(valid_only=True)} for s in range(1, nobj + 1)]
    for _ in range(rng.randrange(0, 4)):
        ops.append(rng.choice([{"op": "del", "slot": g.slot()}, {"op": "put", "slot": g.slot(), "o": g.obj(valid_only=True)}]))
    if rng.random() < 0.3:
        ops.append({"op": "reopen", "close": True, "create": rng.random() < 0.5})
    h = 0
    idxf = ["K", "S"] + [f for f in g.flds]
    for _ in range(nq):
        h += 1
        q = g.chain(depth=rng.choice([1, 1, 2, 3]), last_indexed=idxf, conns=("and",)) if rng.random() < 0.8 else g.chain()
        ops.append({"op": "eval", "h": h, "q": q})
        if rng.random() < 0.25:
            # a refinement of the kept value, collected in order too; the kept value is collected right after
            ops.append({"op": "derive", "h": 100 + h, "from": h, "q": [g.cmp(fields=idxf, conn="and")], "rev": rng.random() < 0.5})
            ops.append({"op": "collect", "h": 100 + h, "rev": rng.random() < 0.4, "lim": rng.choice([-1, -1, 1, 2, nobj]), "what": "collect"})
        what = rng.choice(["one", "assignone", "assignunique", "assign", "expects", "expectszn", "collect", "collect", "collect", "collect"])
        lim = rng.choice([-1, -1, 0, 1, 2, 3, nobj - 1, nobj, nobj + 1, 1 << 30])
        op = {"op": "collect", "h": h, "rev": rng.random() < 0.4, "lim": -1 if what in ("one", "assignone", "assignunique") else lim, "what": what}
        if what in ("expects", "expectszn"):
            op["n"] = rng.choice([0, 1, 2, 3, nobj])
            op["lim"] = -1
        ops.append(op)
        # (a failed expectation - Expects, ExpectsZeroOrN, AssignUnique - makes "any subsequent attempt to collect" fail, as documented)
        z = rng.random() if what not in ("expects", "expectszn", "assignunique") else 1.0
        if z < 0.3:
            # the SAME search value collected again: Limit / Reverse are its settings and stay in force, what the first
            # collection consumed (One, a limit) does not
            ops.append({"op": "collect", "h": h, "rev": rng.random() < 0.3, "lim": rng.choice([-1, -1, -1, 1, 2, nobj]),
                        "what": rng.choice(["collect", "collect", "assign", "one"])})
        elif z < 0.5:
            # ... or refined after it was collected: the refinement is a new value without settings of its own
            ops.append({"op": "derive", "h": 200 + h, "from": h, "q": [g.cmp(fields=idxf, conn=rng.choice(["and", "and", "or"]))], "rev": False})
            ops.append({"op": "collect", "h": 200 + h, "rev": False, "lim": -1, "what": "collect"})
    ops.append({"op": "obs", "qs": [g.chain(last_indexed=idxf, conns=("and",)) for _ in range(6)]})
    return {"id": "ord%d" % idx, "cfg": make_cfg(c[0], c[1], rng.randrange(len(STORAGE))), "ops": ops, "fields": ["K", "S"] + g.flds}


def snapshot_test(uni, rng, idx, nobj=6, cfgs=None):
    """C20: twin searches, one collected at once, the other after later writes."""
    g = RandGen(uni, rng, nslots=nobj + 3)
    c = rng.choice(cfgs) if cfgs else (rng.random() < 0.5, rng.random() < 0.3)
    ops = [{"op": "put", "slot": s, "o": g.obj(valid_only=True)} for s in range(1, nobj + 1)]
    h = 0
    for _ in range(3):
        h += 2
        q = g.chain(depth=rng.choice([1, 1, 1, 2]))
        ops.append({"op": "eval", "h": h, "q": q})
        ops.append({"op": "eval", "h": h + 1, "q": q})
        ops.append({"op": "collect", "h": h, "lim": -1, "what": "collect"})
        if rng.random() < 0.4:
            # the kept value is refined into another one (And / Or / Operation): it stays what it was
            ops.append({"op": "derive", "h": 100 + h, "from": h + 1, "q": [g.cmp(conn=rng.choice(["and", "or", "or", "||", "AND"]))], "rev": rng.random() < 0.5})
            ops.append({"op": "collect", "h": 100 + h, "lim": -1, "what": "collect"})
        if rng.random() < 0.3:
            # empty the collection (one of three ways), refill it: identifiers of the old matches must not denote the new objects
            z = rng.random()
            if z < 0.4:
                ops.append({"op": "delall"})
            elif z < 0.7:
                ops += [{"op": "del", "slot": s} for s in rng.sample(range(1, g.nslots + 1), g.nslots)]
            else:
                ops.append({"op": "delsearch", "q": [{"f": "K", "op": ">=", "p": 0}]})
            for s in rng.sample(range(1, g.nslots + 1), rng.randrange(1, g.nslots + 1)):
                ops.append({"op": "put", "slot": s, "o": g.obj(valid_only=True)})
        for _ in range(rng.randrange(0, 5)):
            y = rng.random()
            if y < 0.5:
                ops.append({"op": "put", "slot": g.slot(), "o": g.obj(valid_only=True)})
            elif y < 0.85:
                ops.append({"op": "del", "slot": g.slot()})
            elif y < 0.93:
                ops.append(g.batch())
            else:
                ops.append({"op": "delsearch", "q": g.chain(depth=1)})
        if rng.random() < 0.2:
            # Repair on the live handle rebuilds the index entries: what the kept value denotes does not move to other objects
            ops.append({"op": "repair"})
            if rng.random() < 0.5:
                ops.append({"op": "put", "slot": g.slot(), "o": g.obj(valid_only=True)})
        if rng.random() < 0.3:
            # refined after the writes: the new value mixes two states (not judged), the kept one is still the snapshot
            ops.append({"op": "derive", "h": 200 + h, "from": h + 1, "q": [g.cmp(conn=rng.choice(["and", "or", "or"]))], "rev": rng.random() < 0.5})
        ops.append({"op": "collect", "h": h + 1, "lim": -1, "what": "collect"})
    return {"id": "snap%d" % idx, "cfg": make_cfg(c[0], c[1], rng.randrange(len(STORAGE))), "ops": ops, "fields": ["K", "S"] + g.flds}


def isolation_test(uni, rng, idx, nobj=5, cfgs=None):
    """C14: scribble over objects passed to writes and returned by reads, with every payload shape."""
    g = RandGen(uni, rng, nslots=nobj)
    c = rng.choice(cfgs) if cfgs else (rng.random() < 0.5, rng.random() < 0.4)
    ops = []
    for s in range(1, nobj + 1):
        o = g.obj(valid_only=True)
        o["pl"] = (idx + s) % uni["payloads"]
        if rng.random() < 0.6:
            o["PX"] = g.val("PX")
            o["PY"] = g.val("PY")
            o.pop("Pn", None)
        ops.append({"op": "put", "slot": s, "o": o} if rng.random() < 0.7 else {"op": "many", "batch": [{"slot": s, "o": o}], "csize": rng.choice([0, 1])})
        if rng.random() < 0.7:
            ops.append({"op": "mutate", "what": "arg", "slot": s})
    for k in range(rng.randrange(4, 9)):
        x = rng.random()
        s = g.slot()
        if x < 0.25:
            ops.append({"op": "mutate", "what": "ret", "slot": s})
        elif x < 0.33:
            ops.append({"op": "mutate", "what": "all", "slot": 0})
        elif x < 0.4:
            ops.append({"op": "mutate", "what": "search", "slot": 0})
        elif x < 0.65:
            ops.append({"op": "mutate", "what": "share", "slot": s, "n": k})
            if k % 2 == 0:
                ops.append({"op": "mutate", "what": "one", "slot": s, "n": k // 2})
        elif x < 0.8:
            o = g.obj(valid_only=True)
            o["pl"] = rng.randrange(uni["payloads"])
            ops.append({"op": "put", "slot": s, "o": o})
            ops.append({"op": "mutate", "what": "arg", "slot": s})
        elif x < 0.9:
            ops.append({"op": "reopen", "close": True, "create": rng.random() < 0.5})
        else:
            ops.append({"op": "obs", "light": True})
    return {"id": "iso%d" % idx, "cfg": make_cfg(c[0], c[1], rng.randrange(len(STORAGE))), "ops": ops, "fields": ["K"]}


def args_test(uni, rng, idx, cfgs=None):
    """C19: the search-argument battery on an empty and on a non-empty collection."""
    g = RandGen(uni, rng, nslots=4)
    c = cfgs[idx % len(cfgs)] if cfgs else (idx % 2 == 0, idx % 4 >= 2)
    ops = []
    if idx % 3 != 0:
        for s in range(1, 1 + (idx % 3) * 2):
            ops.append({"op": "put", "slot": s, "o": g.obj(valid_only=True)})
    ops.append({"op": "args"})
    if idx % 3 == 0:
        ops.append({"op": "put", "slot": 1, "o": g.obj(valid_only=True)})
        ops.append({"op": "args"})
    t = {"id": "arg%d" % idx, "cfg": make_cfg(c[0], c[1], idx), "ops": ops, "fields": ["K"]}
    t["cfg"]["plain"] = idx % 2 == 1
    return t


# --------------------------------------------------------------------------- fault engines

def sync_cfg(rng_or_idx, cache=None):
    i = rng_or_idx if isinstance(rng_or_idx, int) else rng_or_idx.randrange(64)
    c = make_cfg(bool(i % 2) if cache is None else cache, False, i // 2)
    return c


def small_history(uni, rng, nslots=3, nops=4, valid_only=False):
    """A short history of writes over few slots and a narrow key window (K, A only)."""
    ops = []
    for _ in range(nops):
        x = rng.random()
        s = rng.randrange(1, nslots + 1)
        o = {"K": 6 + rng.randrange(4), "A": 4 + rng.randrange(3), "V": 2 if (valid_only or rng.random() < 0.85) else uni["inv"]["V"], "pl": rng.randrange(uni["payloads"])}
        if x < 0.55:
            ops.append({"op": "put", "slot": s, "o": o})
        elif x < 0.7:
            o2 = dict(o, K=6 + rng.randrange(4))
            ops.append({"op": "many", "batch": [{"slot": s, "o": o}, {"slot": rng.randrange(1, nslots + 1), "o": o2}], "csize": rng.choice([0, 0, 1])})
            if ops[-1]["batch"][0]["slot"] == ops[-1]["batch"][1]["slot"]:
                ops[-1]["batch"].pop()
        elif x < 0.9:
            ops.append({"op": "del", "slot": s})
        elif x < 0.95:
            ops.append({"op": "delall"})
        else:
            ops.append({"op": "delsearch", "q": [{"f": "A", "op": rng.choice(QOPS), "p": 4 + rng.randrange(3)}]})
    return ops


def crash_test(uni, rng, idx, nops=3):
    return {"id": "cr%d" % idx, "cfg": sync_cfg(rng), "ops": small_history(uni, rng, nops=nops), "fields": ["K", "A"], "crash_all": True}


def async_crash_test(uni, rng, idx, nops=4):
    """C05 with asynchronous writes: the file-system steps happen in deletes, explicit flushes / commits and Close; every
    call is crash-enumerated (a call without file-system step still yields the state 'the process dies here, writes pending')."""
    ops = []
    for o in small_history(uni, rng, nslots=2, nops=nops):
        ops.append(o)
        if rng.random() < 0.3:
            ops.append({"op": "flush", "what": rng.choice(["all", "allcommit", "commit"])})
    ops.append({"op": "reopen", "close": True, "create": rng.random() < 0.5})
    return {"id": "acr%d" % idx, "cfg": make_cfg(rng.random() < 0.5, True, rng.randrange(len(STORAGE))), "ops": ops, "fields": ["K", "A"], "crash_all": True}


def async_handover_test(uni, rng, idx):
    """C05, asynchronous writes, directed: a unique value changes hands between two flushes (given up by one object and
    taken by another, or two objects swapping through a third value), then the flush is crash-enumerated.  After the last
    object file and before the commit the files are fine and the committed index is stale for SEVERAL objects at once:
    Repair has to converge from there (intermediate points may show the known AsyncUniqueClash)."""
    ks = rng.sample(range(6, 10), 4)
    x, y, z, t = ks
    a = lambda: 4 + rng.randrange(3)
    pl = lambda: rng.randrange(uni["payloads"])
    O = lambda k: {"K": k, "A": a(), "V": 2, "pl": pl()}
    variant = idx % 3
    ops = [{"op": "put", "slot": 1, "o": O(x)}]
    if variant != 0:
        ops.append({"op": "put", "slot": 2, "o": O(y)})
    if idx % 2:
        ops.append({"op": "put", "slot": 3, "o": O(t)})
    ops.append({"op": "flush", "what": "allcommit"})
    if variant == 0:      # 1 gives x up, a NEW object takes it
        ops += [{"op": "put", "slot": 1, "o": O(z)}, {"op": "put", "slot": 2, "o": O(x)}]
    elif variant == 1:    # 1 gives x up, the STORED object 2 takes it
        ops += [{"op": "put", "slot": 1, "o": O(z)}, {"op": "put", "slot": 2, "o": O(x)}]
    else:                 # 1 and 2 swap x and y through z
        ops += [{"op": "put", "slot": 1, "o": O(z)}, {"op": "put", "slot": 2, "o": O(x)}, {"op": "put", "slot": 1, "o": O(y)}]
    ops.append({"op": "flush", "what": rng.choice(["all", "all", "allcommit"])})
    ops.append({"op": "reopen", "close": True, "create": rng.random() < 0.5})
    return {"id": "aho%d" % idx, "cfg": make_cfg(rng.random() < 0.5, True, rng.randrange(len(STORAGE))), "ops": ops, "fields": ["K", "A"], "crash_all": True}


def crashify(t):
    """Turn a model-generated test into a crash test (sync only)."""
    t = dict(t)
    t["crash_all"] = True
    t["fields"] = ["K", "A"]
    t["ops"] = [o for o in t["ops"] if o["op"] in ("put", "many", "del", "delall", "delsearch", "reopen")]
    return t


def damage_tests(uni, rng, limit=None, nslots=3):
    """Every subset of {remove file, add file, remove index entry, remove schema} on small databases."""
    out = []
    idx = 0
    for nobj in range(0, nslots + 1):
        slots = list(range(1, nobj + 1))
        subsets = [[s for j, s in enumerate(slots) if m >> j & 1] for m in range(1 << nobj)]
        for rm in subsets:
            for un in subsets:
                for add in (0, 1, 2):
                    for rms in (False, True):
                        if rms and un:
                            continue   # the index goes with the schema
                        # O is omitted from the file when zero (omitempty): stored objects alternate 3 / 0
                        ops = [{"op": "put", "slot": s, "o": {"K": 6 + s, "A": 4 + s % 2, "O": 3 * (s % 2), "pl": s}} for s in slots]
                        if nobj and (idx % 3 == 0):
                            ops.append({"op": "put", "slot": 1, "o": {"K": 6 + 1, "A": 6, "pl": 2}})   # an update: index entry moved
                        d = {"rm": rm, "unindex": un, "rmschema": rms, "add": [{"K": 12 + j, "A": 4 + j, "O": 2 * j, "pl": 3 + j} for j in range(add)],
                             "first": "create" if idx % 2 else "schema"}
                        ops.append({"op": "damage", "damage": d})
                        # life goes on after the repair
                        ops.append({"op": "put", "slot": 9, "o": {"K": 16, "A": 5}})
                        ops.append({"op": "obs"})
                        ops.append({"op": "reopen", "close": True, "create": idx % 2 == 0})
                        # one database in three has asynchronous writes enabled (Close flushes before the damage; the persisted
                        # setting is then in force for the handle that recovers)
                        cfg = make_cfg(bool(idx % 2), True, (idx // 2) % 32) if ((idx * 2654435761) >> 7) % 3 == 0 else sync_cfg(idx % 64)
                        t = {"id": "dm%d" % idx, "cfg": cfg, "ops": ops, "fields": ["K", "A", "O"], "ownids": (idx // 7) % 2 == 1}
                        if (idx // 5) % 2 == 1:
                            # a second, healthy collection is loaded in the handle that recovers: Control goes through every collection
                            t["aux"] = True
                            t["ops"] = [{"op": "xput", "slot": 1, "k": 1, "a": 1}, {"op": "xput", "slot": 2, "k": 2, "a": 0}] + t["ops"]
                        out.append(t)
                        idx += 1
    if limit and len(out) > limit:
        rng.shuffle(out)
        out = out[:limit]
    return out


def damage_live_test(uni, rng, idx):
    """C10 / C11: an asynchronous collection is damaged behind the database's back; the handle that finds the damage is
    repaired and KEPT (no Create, no second Open); under the virtual clock its writes must still reach the disk by
    threshold / timeout, and Close must complete them."""
    nobj = rng.randrange(1, 4)
    thr = rng.choice([1, 2, 3])
    tmo = rng.choice([1, 2, 3])
    ops = [{"op": "put", "slot": s, "o": {"K": 6 + s, "A": 4 + s % 2, "pl": s}} for s in range(1, nobj + 1)]
    ops.append({"op": "flush", "what": "allcommit"})
    kind = idx % 4
    d = {"rm": [], "unindex": [], "rmschema": False, "add": [], "live": True}
    if kind == 0:
        d["rm"] = [1]
    elif kind == 1:
        d["add"] = [{"K": 12, "A": 4, "pl": 3}]
    elif kind == 2:
        d["unindex"] = [1]
    # kind 3: nothing is damaged - the first load is fine, Repair has nothing to do
    ops.append({"op": "damage", "damage": d})
    for j in range(rng.randrange(1, 4)):
        ops.append({"op": "put", "slot": 5 + j, "o": {"K": 14 + j, "A": 5, "pl": j}})
        if rng.random() < 0.5:
            ops.append({"op": "tick"})
    for _ in range(tmo + 1):
        ops.append({"op": "tick"})
    ops.append({"op": "obs"})
    ops.append({"op": "reopen", "close": True, "create": rng.random() < 0.5})
    ops.append({"op": "obs"})
    return {"id": "dl%d" % idx, "cfg": make_cfg(rng.random() < 0.5, True, rng.randrange(len(STORAGE)), thr=thr, tmo_ms=tmo * 100), "ops": ops, "fields": ["K", "A"], "vclock": True}


def fault_tests(uni, rng, n, kmax=16):
    """A short history, then one call with a single storage fault at its k-th file-system call."""
    out = []
    idx = 0
    # directed part: two stored objects, then every kind of call - in particular batches mixing updates of stored objects
    # and new objects in both orders - with the fault at each of its file-system calls
    O = lambda k, a: {"K": k, "A": a, "V": 2, "pl": rng.randrange(uni["payloads"])}
    pre0 = [{"op": "put", "slot": 1, "o": O(6, 4)}, {"op": "put", "slot": 2, "o": O(7, 5)}]
    B = lambda *items: {"op": "many", "batch": [{"slot": s, "o": o} for s, o in items], "csize": 0}
    targets = [B((1, O(6, 6)), (3, O(8, 4))), B((3, O(8, 4)), (1, O(6, 6))), B((1, O(9, 6)), (2, O(7, 4))), B((3, O(8, 4)), (4, O(9, 5))),
               B((1, O(6, 6)), (2, O(7, 6)), (3, O(8, 4))),
               {"op": "put", "slot": 1, "o": O(9, 6)}, {"op": "put", "slot": 3, "o": O(8, 4)}, {"op": "del", "slot": 1}, {"op": "delall"},
               {"op": "delsearch", "q": [{"f": "A", "op": ">=", "p": 4}]}]
    for ti, target in enumerate(targets):
        cfg = make_cfg(ti % 2 == 1, False, rng.randrange(8))
        for k in range(1, (30 if target["op"] == "many" else 18) + 1):
            for sub in ("", "write"):
                t = dict(target)
                t["fault"], t["fsub"] = k, sub
                out.append({"id": "ftd%d" % idx, "cfg": cfg, "ops": pre0 + [t], "fields": ["K", "A"], "noobs": False})
                idx += 1
    n += len(out)        # the directed part is always complete; n random ones follow
    while len(out) < n:
        pre = small_history(uni, rng, nops=rng.randrange(0, 4))
        target = small_history(uni, rng, nops=1, valid_only=True)[0]
        cfg = make_cfg(rng.random() < 0.5, rng.random() < 0.25, rng.randrange(8))
        for k in range(1, kmax + 1):
            for sub in ("", "write"):
                t = dict(target)
                t["fault"], t["fsub"] = k, sub
                out.append({"id": "ft%d" % idx, "cfg": cfg, "ops": pre + [t], "fields": ["K", "A"], "noobs": False})
                idx += 1
    return out[:n]


NODE_REPL = ["null", "0", "-1", "\"x\"", "[]", "{}", "true", "1e99", "[[]]", "{\"a\":1}", "1.5", "\"\""]
STRAYS = [("file", "nodot"), ("file", "README"), ("file", ".hidden"), ("file", "x.json"), ("dir", "subdir"), ("dir", "sub.dir"),
          ("dir", "00000000-0000-4000-8000-000000000000"), ("dir", "00000000-0000-4000-8000-000000000000.json"),
          ("file", "00000000-0000-4000-8000-000000000000"), ("file", "00000000-0000-4000-8000-000000000000.json.bak"),
          ("file", "00000000-0000-4000-8000-00000000000.json"), ("file", "schema.json.tmp"), ("file", "..json"), ("file", ".")]


def corrupt_tests(uni, rng, n_schema, n_object, exhaustive=False):
    """File-level mutations of a small valid database: truncation at every length, single-bit flips,
    every JSON node replaced by each other kind, stray directory entries."""
    out = []
    base = [{"op": "put", "slot": 1, "o": {"K": 7, "A": 4, "pl": 3, "PX": 3, "PY": 8}}, {"op": "put", "slot": 2, "o": {"K": 8, "A": 5, "pl": 6}}]
    idx = [0]

    def add(c, gz=False, cache=False):
        cfg = make_cfg(cache, False, 0)
        cfg["gz"] = gz
        out.append({"id": "co%d" % idx[0], "cfg": cfg, "ops": base + [{"op": "corrupt", "corrupt": c}], "fields": ["K"], "noobs": True})
        idx[0] += 1
    SCH, OBJ = 2600, 330      # upper bounds of the file sizes; positions beyond the end are harmless
    lens_s = range(0, SCH) if exhaustive else sorted(rng.sample(range(0, SCH), n_schema))
    for L in lens_s:
        add({"target": "schema", "kind": "trunc", "at": L})
    bits_s = range(0, SCH * 8) if exhaustive else sorted(rng.sample(range(0, SCH * 8), n_schema * 2))
    for b in bits_s:
        add({"target": "schema", "kind": "flip", "at": b})
    nodes = range(0, 120) if exhaustive else sorted(rng.sample(range(0, 120), min(120, max(6, n_schema // 4))))
    for nd in nodes:
        for v in (NODE_REPL if exhaustive else rng.sample(NODE_REPL, 4)):
            add({"target": "schema", "kind": "node", "at": nd, "val": v})
    lens_o = range(0, OBJ) if exhaustive else sorted(rng.sample(range(0, OBJ), n_object))
    for L in lens_o:
        add({"target": "object", "slot": 1, "kind": "trunc", "at": L}, gz=L % 2 == 1, cache=L % 3 == 0)
    bits_o = range(0, OBJ * 8) if exhaustive else sorted(rng.sample(range(0, OBJ * 8), n_object * 2))
    for b in bits_o:
        add({"target": "object", "slot": 1, "kind": "flip", "at": b}, gz=b % 2 == 1)
    for nd in (range(0, 40) if exhaustive else sorted(rng.sample(range(0, 40), min(40, max(4, n_object // 4))))):
        for v in (NODE_REPL if exhaustive else rng.sample(NODE_REPL, 3)):
            add({"target": "object", "slot": 1, "kind": "node", "at": nd, "val": v}, gz=nd % 2 == 1)
    for v in ["", "null", "[]", "0", "\"s\"", "{", "{}", "\x00\x00", "{\"fields\":null}", "{\"index\":null}", "{\"index\":{\"fields\":{\"K\":null}}}"]:
        add({"target": "schema", "kind": "set", "val": v})
        add({"target": "object", "slot": 1, "kind": "set", "val": v})
        # the same bytes under the name of a COMPRESSED object: not a gzip stream at all
        add({"target": "object", "slot": 1, "kind": "set", "val": v}, gz=True, cache=len(v) % 2 == 1)
    if not exhaustive:
        # the head of the file is where the format lives (gzip magic / method / flags, the opening brace):
        # always covered, whatever the sample above drew
        for L in range(0, 12):
            for gz in (False, True):
                add({"target": "object", "slot": 1, "kind": "trunc", "at": L}, gz=gz, cache=L % 3 == 0)
        for b in range(0, 32):
            add({"target": "object", "slot": 1, "kind": "flip", "at": b}, gz=True)
    for kind, name in STRAYS:
        add({"target": "stray", "kind": kind, "val": name})
    # structure-aware damage of the serialised index (object id of an entry becomes another object's,
    # value of another entry, entries dropped / duplicated / swapped, object-ids table edited)
    for kind in ("idxoid", "idxval", "idxdrop", "idxdup", "idxswap"):
        for fld in range(0, 10):
            for ent in (0, 1):
                add({"target": "schema", "kind": kind, "at": fld * 8 + ent})
    for kind in ("oiddrop", "oiddup"):
        for k in (0, 1):
            add({"target": "schema", "kind": kind, "at": k})
    return out


def async_test(uni, rng, idx, nops=14, nslots=5):
    """C10: asynchronous collection driven with the virtual clock: writes, deletes of pending objects,
    ticks (the flusher must flush on threshold / timeout), explicit flushes, close + reopen."""
    g = RandGen(uni, rng, nslots=nslots)
    thr = rng.choice([1, 2, 3, 4])
    tmo = rng.choice([1, 2, 3, 5])
    ops = []
    for _ in range(nops):
        x = rng.random()
        if x < 0.4:
            ops.append({"op": "put", "slot": g.slot(), "o": g.obj()})
        elif x < 0.5:
            ops.append(g.batch())
        elif x < 0.62:
            ops.append({"op": "del", "slot": g.slot()})
        elif x < 0.82:
            ops.append({"op": "tick"})
        elif x < 0.86:
            ops.append({"op": "flush", "what": rng.choice(["all", "allcommit", "commit"])})
        elif x < 0.91:
            ops.append({"op": "flushone", "slot": g.slot(), "commit": rng.random() < 0.5, "what": rng.choice(["same", "dirty", "blank"])})
        elif x < 0.95:
            ops.append({"op": "obs", "light": True})
        else:
            ops.append({"op": "obs"})
            ops.append({"op": "reopen", "close": True, "create": rng.random() < 0.6})
            ops.append({"op": "obs"})
    t = {"id": "as%d" % idx, "cfg": make_cfg(rng.random() < 0.5, True, rng.randrange(len(STORAGE)), thr=thr, tmo_ms=tmo * 100), "ops": ops, "fields": ["K", "S"] + g.flds[:1], "vclock": True}
    return t


# --------------------------------------------------------------------------- concurrent histories (C08 / C09)

def conc_test(uni, rng, idx, nthreads=3, nops=3, nslots=4, race=False, reopen=None, cfgs=None, hang=False):
    cm = uni["casemul"]

    def obj(slot, batch=False):
        k = (12 + slot) if batch else 6 + rng.randrange(3)
        return {"K": k, "S": (1 + (k - 5)) * cm, "A": 4 + rng.randrange(2), "V": 2, "pl": 0}
    setup = [{"op": "put", "slot": s, "o": obj(s)} for s in rng.sample(range(1, nslots + 1), rng.randrange(0, nslots))]
    # distinct keys in the set-up (a rejected set-up write is simply not part of the history)
    threads = []
    for g in range(nthreads):
        ops = []
        for _ in range(nops):
            x = rng.random()
            s = rng.randrange(1, nslots + 1)
            if x < 0.36:
                ops.append({"op": "put", "slot": s, "o": obj(s)})
            elif x < 0.48:
                ops.append({"op": "del", "slot": s})
            elif x < 0.60:
                ops.append({"op": "get", "slot": s})
            elif x < 0.65:
                ops.append({"op": "exist", "slot": s})
            elif x < 0.70:
                ops.append({"op": "count"})
            elif x < 0.79:
                ops.append({"op": "all"})
            elif x < 0.89:
                f = rng.choice(["K", "A", "V"])
                p = {"K": 6 + rng.randrange(3), "A": 4 + rng.randrange(2), "V": 2}[f]
                q = [{"f": f, "op": rng.choice(QOPS), "p": p}]
                if (race or hang) and rng.random() < 0.6:
                    f2 = rng.choice(["K", "A", "V"])
                    q.append({"f": f2, "op": rng.choice(QOPS), "p": {"K": 7, "A": 4, "V": 2}[f2], "conn": rng.choice(["and", "or"])})
                ops.append({"op": "q", "q": q})
            elif x < 0.95:
                s2 = (s % nslots) + 1
                ops.append({"op": "many", "batch": [{"slot": s, "o": obj(s, True)}, {"slot": s2, "o": obj(s2, True)}]})
            elif x < 0.98:
                ops.append({"op": "delall"})
            else:
                ops.append({"op": "delq", "q": [{"f": "A", "op": rng.choice(QOPS), "p": 4 + rng.randrange(2)}]})
            if race and rng.random() < 0.08:
                ops.append({"op": rng.choice(["flush", "control", "aidx"])})
            if (race or hang) and rng.random() < (0.12 if hang else 0.04):
                ops.append({"op": "switch", "cfg": {"cache": rng.random() < 0.5, "async": rng.random() < 0.5}})
            if hang and rng.random() < 0.06:
                ops.append({"op": "closecall"})
        threads.append(ops)
    c = rng.choice(cfgs) if cfgs else (rng.random() < 0.4, rng.random() < 0.3)
    t = {"id": "cc%d" % idx, "cfg": make_cfg(c[0], c[1], rng.randrange(len(STORAGE)), thr=rng.choice([1, 2, 100000]), tmo_ms=rng.choice([100, 3600000])),
         "ops": setup, "threads": threads, "perturb": rng.random() < 0.7, "yield": rng.random() < 0.5,
         "reopen": (rng.random() < 0.4) if reopen is None else reopen, "fields": ["K"]}
    if race:
        t["norecord"] = True
    return t


def reentry_tests(uni, rng, reps=150):
    """C09: one reader repeating ONE kind of call many times against two writers, for every kind of reading call and every
    configuration: a call that takes the read lock twice (directly or through a helper) blocks for good as soon as a writer
    arrives between the two acquisitions - with enough repetitions that is certain in practice."""
    cm = uni["casemul"]

    def obj(slot, k):
        return {"K": k, "S": (1 + (k - 5)) * cm, "A": 4 + slot % 2, "V": 2, "pl": 0}
    q1 = lambda f, p: {"f": f, "op": ">=", "p": p}
    kinds = {
        "get": [{"op": "get", "slot": 1}], "exist": [{"op": "exist", "slot": 2}], "count": [{"op": "count"}], "all": [{"op": "all"}],
        "q-indexed": [{"op": "q", "q": [q1("K", 6)]}], "q-unindexed": [{"op": "q", "q": [q1("V", 1)]}],
        "and-indexed": [{"op": "q", "q": [q1("K", 6), dict(q1("A", 4), conn="and")]}],
        "and-unindexed": [{"op": "q", "q": [q1("K", 6), dict(q1("V", 1), conn="and")]}],
        "or-unindexed": [{"op": "q", "q": [q1("K", 6), dict(q1("V", 1), conn="or")]}],
        "unindexed-and-unindexed": [{"op": "q", "q": [q1("V", 1), dict(q1("V", 2), conn="and")]}],
        "aidx": [{"op": "aidx"}], "control": [{"op": "control"}], "flush": [{"op": "flush"}],
        "delq": [{"op": "delq", "q": [{"f": "A", "op": "=", "p": 9}]}],
    }
    out = []
    # a bulk import whose producer uses the same handle between two objects (sequential test: the producer is a goroutine
    # of the driver's own)
    for ci, c in enumerate([(False, False), (True, False), (False, True), (True, True)]):
        for cs in (0, 1, 2):
            out.append({"id": "re-bulkfeed-%d-%d" % (ci, cs), "cfg": make_cfg(c[0], c[1], (ci * 5) % len(STORAGE), thr=1, tmo_ms=100),
                        "ops": [{"op": "put", "slot": 1, "o": obj(1, 6)},
                                {"op": "bulkfeed", "batch": [{"slot": 2 + j, "o": obj(2 + j, 7 + j)} for j in range(5)], "csize": cs}],
                        "fields": ["K"], "norecord": True})
    for name, ops in kinds.items():
        for ci, c in enumerate([(False, False), (True, False), (False, True), (True, True)]):
            setup = [{"op": "put", "slot": s, "o": obj(s, 5 + s)} for s in (1, 2, 3)]
            w1 = [{"op": "put", "slot": 1 + i % 2, "o": obj(1 + i % 2, 6 + i % 2)} for i in range(reps)]
            w2 = [{"op": "put", "slot": 3, "o": obj(3, 8)} for i in range(reps)]
            out.append({"id": "re-%s-%d" % (name, ci), "cfg": make_cfg(c[0], c[1], (ci * 5) % len(STORAGE), thr=1, tmo_ms=100), "ops": setup,
                        "threads": [ops * reps, w1, w2], "perturb": False, "yield": True, "reopen": ci % 2 == 1, "fields": ["K"], "norecord": True})
    return out


def drop_conc_tests(uni, rng, n=40, reps=12):
    """C08 for Drop: one goroutine drops and re-creates the collection while others write and read it; schedule perturbation at
    the file-system call sites; synchronous settings.  Only the final state is judged (spec/SodFinal.tla)."""
    cm = uni["casemul"]
    out = []
    for i in range(n):
        def obj(slot):
            k = 5 + slot
            return {"K": k, "S": (1 + (k - 5)) * cm, "A": 4 + slot % 2, "V": 2, "pl": 0}
        setup = [{"op": "put", "slot": s, "o": obj(s)} for s in range(1, 1 + rng.randrange(2, 6))]
        t1 = []
        for _ in range(reps // 3):
            t1 += [{"op": "drop"}, {"op": "put", "slot": 1 + rng.randrange(6), "o": obj(1 + rng.randrange(6))}]
        t2 = [{"op": "put", "slot": 1 + (j % 6), "o": obj(1 + (j % 6))} for j in range(reps)]
        t3 = [rng.choice([{"op": "count"}, {"op": "all"}, {"op": "get", "slot": 1 + rng.randrange(6)}, {"op": "del", "slot": 1 + rng.randrange(6)}]) for _ in range(reps)]
        out.append({"id": "dc%d" % i, "cfg": make_cfg(i % 2 == 1, False, i % len(STORAGE)), "ops": setup, "threads": [t1, t2, t3], "perturb": True, "yield": i % 3 == 0,
                    "reopen": False, "fields": ["K"], "norecord": True, "finalcheck": True})
    return out


def race_stress_tests(uni, rng, reps=60, scale=1):
    """C08 memory part: every kind of call repeated in one goroutine against a writer and against calls on a SECOND collection
    of the same handle (whose first access after Open loads its schema), after a reopen or not; run under the race detector
    without any driver-side synchronisation."""
    tests = [t for t in reentry_tests(uni, rng, reps=reps) if "threads" in t]      # (the sequential bulk-feed tests are C09's)
    out = []
    for i, t in enumerate(tests):
        aux = [{"op": "xcount"}, {"op": "xput", "slot": 1 + i % 3, "k": i % 5, "a": i % 3}, {"op": "xget", "slot": 1 + i % 3}, {"op": "xall"}, {"op": "xq"}]
        t = dict(t, id="rs" + t["id"][2:], aux=True, norecord=True, reopen=(i % 2 == 0), perturb=(i % 3 == 0))
        t["threads"] = [t["threads"][0], t["threads"][1][: reps // 2], (aux * reps)[:reps]]
        out.append(t)
    return out


def index_order_tests(maxlen, field="A", base=4, nvals=4):
    """C02 / FieldIndex: every insertion order of up to maxlen values over nvals values (ties included), so that
    every index content of FieldIndex.tla is built through the public API in every order the in-place
    shifting depends on; the sweep then tries every operator x probe on it."""
    import itertools
    out = []
    idx = 0
    for n in range(1, maxlen + 1):
        for seq in itertools.product(range(nvals), repeat=n):
            ops = [{"op": "put", "slot": i + 1, "o": {"K": 6 + i, field: base + v, "V": 2}} for i, v in enumerate(seq)]
            # one update that moves an entry inside the index and one delete, then the final sweep
            if n >= 2:
                ops.append({"op": "obs"})
                ops.append({"op": "put", "slot": 1, "o": {"K": 6, field: base + (seq[0] + 1) % nvals, "V": 2}})
                ops.append({"op": "del", "slot": n})
            out.append({"id": "fi%d" % idx, "cfg": make_cfg(idx % 2 == 1, False, idx // 2), "ops": ops, "fields": [field]})
            idx += 1
    return out
