"""setup: build the tools from files on disk, parse every specification module."""
import glob, os, subprocess, shutil, tempfile
from . import vlib
from .vlib import log


def run():
    try:
        vlib.build_rewriter()
        log("rewriter built")
        tmp = tempfile.mkdtemp(prefix="verif-sany-", dir=vlib.SHM)
        bad = 0
        try:
            for f in glob.glob(os.path.join(vlib.SPEC, "*.tla")):
                shutil.copy(f, tmp)
            for f in sorted(glob.glob(os.path.join(tmp, "*.tla"))):
                p = subprocess.run(["java", "-cp", vlib.TLC_JAR, "tla2sany.SANY", os.path.basename(f)], cwd=tmp,
                                   stdout=subprocess.PIPE, stderr=subprocess.STDOUT, text=True, timeout=120)
                ok = p.returncode == 0 and "*** Errors" not in p.stdout and "Fatal errors" not in p.stdout
                log("SANY %-18s %s" % (os.path.basename(f), "ok" if ok else "FAILED"))
                if not ok:
                    log(p.stdout[-2000:])
                    bad += 1
        finally:
            shutil.rmtree(tmp, ignore_errors=True)
        if bad:
            return 2
        b = vlib.build()
        log("harness built against /repo's working tree:", b)
        return 0
    except vlib.Inconclusive as e:
        log("setup failed:", e)
        return 2
