"""Writes MANIFEST.json from the table of built checks."""
import json, os
from . import vlib, checks

BASELINE_OFF = "cd /repo && GOFLAGS=-mod=mod go test -json -vet=off -count=1 -timeout 25m ./..."

LEVEL_NOTE = ("trusted base: TLC, the harness's projection of Go values to integer codes (universe order self-checked), the AST rewriter that "
              "redirects os/ioutil/time.Sleep/sync mutexes of a scratch copy of /repo to pass-through shims; the specification modules in /verif/spec")


def run():
    props = [json.loads(l) for l in open(os.path.join(vlib.VERIF, "properties.jsonl"))]
    out_checks, na = [], []
    for p in props:
        pid = p["id"]
        meta = checks.META.get(pid)
        if pid in checks.CHECKS and meta:
            out_checks.append({
                "property_id": pid,
                "quick_cmd": "./verif check %s --tier quick" % pid,
                "thorough_cmd": "./verif check %s --tier thorough" % pid,
                "evidence_file": "/verif/evidence/%s.json" % pid,
                "replay_cmd_template": "./verif replay {path}",
                "engine": meta.get("engine", "tlc-trace"),
                "level_claimed": {"category": meta["level"], "text": meta["text"], "design_ref": meta.get("ref", "DESIGN.md §6 " + pid)},
                "level_note": meta.get("note", LEVEL_NOTE),
                "technique": meta["technique"],
            })
        else:
            na.append({"property_id": pid, "reason": checks.NOT_YET.get(pid, "check not built yet in this round; see DESIGN.md §6 for the plan")})
    m = {
        "version": 1,
        "setup_cmd": "./verif setup",
        "hooks": {"guard": "verif", "enable": "no hook in /repo: every check rewrites a scratch copy of /repo's current working tree (tools/rewrite) so that os/ioutil file calls, time.Sleep and sync mutexes go through /verif/shim; the build tag 'verif' is reserved",
                  "baseline_off_cmd": BASELINE_OFF, "source_commits": [], "add_only": True},
        "engines": [
            {"name": "tlc-trace", "path": "/verif/spec/SodTrace.tla", "serves_properties": [c["property_id"] for c in out_checks if c["engine"] == "tlc-trace"],
             "kind_free_text": "TLC explores the design model spec/SodImpl.tla exhaustively (design invariants) and emits one test per transition; the harness executes the tests on the real code; TLC validates every recorded trace against spec/SodTrace.tla with the property's invariant"},
            {"name": "tlc-lin", "path": "/verif/spec/SodLin.tla", "serves_properties": [c["property_id"] for c in out_checks if c["engine"] == "tlc-lin"],
             "kind_free_text": "concurrent histories of the real code checked for linearizability by TLC; race detector runs of the same programs"},
            {"name": "tlc-lock", "path": "/verif/spec/SodLock.tla", "serves_properties": [c["property_id"] for c in out_checks if c["engine"] == "tlc-lock"],
             "kind_free_text": "lock programs extracted from the source, explored by TLC under Go RWMutex semantics, bound by lock-trace validation"},
        ],
        "checks": out_checks,
        "not_applicable": na,
        "notes": "Genuine defects found and repaired are listed in /verif/known_findings.json (status fixed) with their fix: commits in /repo.",
    }
    with open(os.path.join(vlib.VERIF, "MANIFEST.json"), "w") as f:
        json.dump(m, f, indent=1)
    print("MANIFEST.json: %d checks, %d not applicable" % (len(out_checks), len(na)))
    return 0
