"""Orchestration library for the sod verification framework.

Everything here drives tools: the rewriter + Go build of the scratch copy of
/repo's working tree, TLC on the specification modules, the harness binary.
No verdict is computed in Python: a trace is good iff TLC accepts it.
"""
import hashlib, json, os, re, shutil, subprocess, sys, tempfile, time, glob
from concurrent.futures import ThreadPoolExecutor

VERIF = os.path.dirname(os.path.dirname(os.path.abspath(__file__)))
REPO = os.environ.get("VERIF_REPO", "/repo")
SPEC = os.path.join(VERIF, "spec")
NCPU = os.cpu_count() or 4
GOENV = dict(os.environ, GOFLAGS="-mod=mod", GOPROXY="off", GOSUMDB="off", GOTOOLCHAIN="local")
SHM = "/dev/shm" if os.path.isdir("/dev/shm") and os.access("/dev/shm", os.W_OK) else tempfile.gettempdir()


class Inconclusive(Exception):
    pass


def log(*a):
    print(*a, flush=True)


def sh(cmd, cwd=None, env=None, timeout=None, check=True):
    p = subprocess.run(cmd, cwd=cwd, env=env, timeout=timeout, stdout=subprocess.PIPE, stderr=subprocess.STDOUT, text=True)
    if check and p.returncode != 0:
        raise Inconclusive("command failed (%d): %s\n%s" % (p.returncode, " ".join(cmd), p.stdout[-4000:]))
    return p


# --------------------------------------------------------------------------- work dirs

class Work:
    """A scratch directory under /dev/shm, removed on exit."""

    def __init__(self, tag):
        # scratch directories carry the pid of their owner: what a killed run (timeout, kill) left behind is removed by the next one
        for d in glob.glob(os.path.join(SHM, "verif-*-p[0-9]*-*")) + glob.glob(os.path.join(SHM, "verif-build-*")):
            try:
                if os.path.basename(d).startswith("verif-build-"):
                    stale = time.time() - os.path.getmtime(d) > 3600
                else:
                    pid = int(re.search(r"-p(\d+)-", os.path.basename(d)).group(1))
                    stale = not os.path.exists("/proc/%d" % pid)
                if stale:
                    shutil.rmtree(d, ignore_errors=True)
            except (OSError, AttributeError, ValueError):
                pass
        self.dir = tempfile.mkdtemp(prefix="verif-%s-p%d-" % (tag, os.getpid()), dir=SHM)

    def path(self, *a):
        return os.path.join(self.dir, *a)

    def sub(self, name):
        p = self.path(name)
        os.makedirs(p, exist_ok=True)
        return p

    def close(self):
        shutil.rmtree(self.dir, ignore_errors=True)

    def __enter__(self):
        return self

    def __exit__(self, *a):
        if not os.environ.get("VERIF_KEEP"):
            self.close()
        else:
            log("kept work dir", self.dir)


# --------------------------------------------------------------------------- build

def _tree_hash(paths):
    h = hashlib.sha256()
    for p in sorted(paths):
        h.update(p.encode())
        with open(p, "rb") as f:
            h.update(f.read())
    return h.hexdigest()[:20]


def repo_sources():
    return [p for p in glob.glob(os.path.join(REPO, "*.go")) if not p.endswith("_test.go")] + \
           [os.path.join(REPO, "go.mod"), os.path.join(REPO, "go.sum")]


def framework_sources():
    out = []
    for d in ("harness", "shim/vfs", "shim/vsync", "shim/vtime", "tools/rewrite", "harness/shapes"):
        for root, _, files in os.walk(os.path.join(VERIF, d)):
            for f in files:
                if f.endswith(".go") or f == "go.mod":
                    out.append(os.path.join(root, f))
    return sorted(set(out))


def build_extractor():
    out = os.path.join(VERIF, "bin", "extract")
    src = os.path.join(VERIF, "tools", "extract")
    os.makedirs(os.path.dirname(out), exist_ok=True)
    if not os.path.exists(out) or os.path.getmtime(out) < max(os.path.getmtime(os.path.join(src, f)) for f in os.listdir(src)):
        sh(["go", "build", "-o", out, "."], cwd=src, env=GOENV)
    return out


def extract_facts(wdir):
    """Lock facts of the CURRENT tree (extracted from the rewritten scratch copy that the harness binary was built from)."""
    binp = build()
    src = os.path.join(os.path.dirname(binp), "sod")
    ex = build_extractor()
    os.makedirs(wdir, exist_ok=True)
    tla = os.path.join(wdir, "SodLockFacts.tla")
    js = os.path.join(wdir, "facts.json")
    # (race/SodLockFacts.tla: the same programs with the accesses to fields of the shared structures in between, for the race model)
    os.makedirs(os.path.join(wdir, "race"), exist_ok=True)
    p = sh([ex, "-dir", src, "-out", tla, "-json", js, "-race", os.path.join(wdir, "race", "SodLockFacts.tla")], env=GOENV)
    rp = os.path.join(wdir, "race", "SodLockFacts.tla")
    with open(rp) as f:
        txt = f.read().replace("MODULE SodRaceFacts", "MODULE SodLockFacts")
    with open(rp, "w") as f:
        f.write(txt)
    with open(js) as f:
        return json.load(f), tla, p.stdout.strip()


def build_rewriter():
    out = os.path.join(VERIF, "bin", "rewrite")
    src = os.path.join(VERIF, "tools", "rewrite")
    os.makedirs(os.path.dirname(out), exist_ok=True)
    if not os.path.exists(out) or os.path.getmtime(out) < max(os.path.getmtime(os.path.join(src, f)) for f in os.listdir(src)):
        sh(["go", "build", "-o", out, "."], cwd=src, env=GOENV)
    return out


def build(race=False, tags=""):
    """Rewrite /repo's current working tree into a scratch module and build the
    harness against it.  Cached by content hash of every input."""
    key = _tree_hash(repo_sources() + framework_sources()) + ("-race" if race else "") + (("-" + tags) if tags else "")
    cdir = os.path.join(VERIF, ".work", "build-" + key)
    binp = os.path.join(cdir, "sodh")
    if os.path.exists(binp):
        try:
            os.utime(cdir)        # in use: keeps it out of the pruning below
        except OSError:
            pass
        return binp
    rw = build_rewriter()
    tmp = tempfile.mkdtemp(prefix="verif-build-", dir=SHM)
    try:
        sh([rw, "-src", REPO, "-dst", os.path.join(tmp, "sod"), "-shim", os.path.join(VERIF, "shim")])
        hd = os.path.join(tmp, "harness")
        shutil.copytree(os.path.join(VERIF, "harness"), hd)
        shutil.copy(os.path.join(REPO, "go.sum"), os.path.join(hd, "go.sum"))
        cmd = ["go", "build"]
        if race:
            cmd.append("-race")
        if tags:
            cmd += ["-tags", tags]
        cmd += ["-o", os.path.join(tmp, "sodh"), "."]
        p = sh(cmd, cwd=hd, env=GOENV, check=False)
        if p.returncode != 0:
            raise Inconclusive("scratch copy of /repo does not build:\n" + p.stdout[-6000:])
        os.makedirs(os.path.dirname(cdir), exist_ok=True)
        # the rewritten source is kept next to the binary: the lock-fact extractor reads it, so that
        # the call sites it reports are those of the running binary.  Published atomically (several checks may run at once).
        stage = tempfile.mkdtemp(prefix="stage-", dir=os.path.dirname(cdir))
        shutil.copytree(os.path.join(tmp, "sod"), os.path.join(stage, "sod"))
        shutil.copy(os.path.join(tmp, "sodh"), os.path.join(stage, "sodh"))
        try:
            os.rename(stage, cdir)
        except OSError:
            shutil.rmtree(stage, ignore_errors=True)      # another process published the same build first
        # prune builds that have not been used for two hours (never the 8 most recent ones)
        builds = sorted(glob.glob(os.path.join(VERIF, ".work", "build-*")), key=os.path.getmtime)
        for b in builds[:-8]:
            if time.time() - os.path.getmtime(b) > 7200:
                shutil.rmtree(b, ignore_errors=True)
        for b in glob.glob(os.path.join(VERIF, ".work", "stage-*")):
            if time.time() - os.path.getmtime(b) > 7200:
                shutil.rmtree(b, ignore_errors=True)
    finally:
        shutil.rmtree(tmp, ignore_errors=True)
    return binp


# --------------------------------------------------------------------------- TLC

TLC_JAR = "/opt/veriftools/tla/tla2tools.jar:/opt/veriftools/tla/CommunityModules-deps.jar"


def tlc(module, cfg_text, wdir, workers=1, timeout=600, heap="3g", extra=(), dfs=False, name=None):
    """Run TLC on spec/<module>.tla with the given cfg text inside wdir (specs are copied)."""
    os.makedirs(wdir, exist_ok=True)
    for f in glob.glob(os.path.join(SPEC, "*.tla")):
        dst = os.path.join(wdir, os.path.basename(f))
        if not os.path.exists(dst):
            shutil.copy(f, dst)
    name = name or module
    cfgp = os.path.join(wdir, name + ".cfg")
    with open(cfgp, "w") as f:
        f.write(cfg_text)
    meta = tempfile.mkdtemp(prefix="meta-", dir=wdir)
    java = ["java", "-XX:+UseParallelGC", "-Xmx" + heap, "-Xss64m"]
    if dfs:
        java.append("-Dtlc2.tool.queue.IStateQueue=StateDeque")
    cmd = java + ["-cp", TLC_JAR, "tlc2.TLC", "-workers", str(workers), "-metadir", meta, "-config", cfgp, "-noGenerateSpecTE"] + list(extra) + [module + ".tla"]
    t0 = time.time()
    try:
        p = subprocess.run(cmd, cwd=wdir, stdout=subprocess.PIPE, stderr=subprocess.STDOUT, text=True, timeout=timeout)
        out, rc = p.stdout, p.returncode
    except subprocess.TimeoutExpired as e:
        out = (e.stdout or b"").decode() if isinstance(e.stdout, bytes) else (e.stdout or "")
        rc = 124
    shutil.rmtree(meta, ignore_errors=True)
    return TlcResult(rc, out, time.time() - t0)


class TlcResult:
    def __init__(self, rc, out, wall):
        self.rc, self.out, self.wall = rc, out, wall
        m = re.search(r"(\d+) states generated, (\d+) distinct states found", out)
        self.generated = int(m.group(1)) if m else 0
        self.distinct = int(m.group(2)) if m else 0
        self.violated = re.findall(r"Error: Invariant (\S+) is violated", out)
        self.prop_violated = re.findall(r"Error: Action property (\S+) is violated|Error: Temporal properties were violated", out)
        self.deadlock = "Deadlock reached" in out
        self.post_failed = "Postcondition" in out and "is false" in out
        self.completed = "Model checking completed. No error has been found." in out
        self.exception = ("TLC threw an unexpected exception" in out or "Parsing or semantic analysis failed" in out
                          or "java.lang." in out and "Error:" in out and not self.violated)
        self.timeout = rc == 124

    def last_l(self):
        ls = re.findall(r"^(?:/\\ )?l = (\d+)", self.out, re.M)
        return int(ls[-1]) if ls else None

    def ok(self):
        return self.completed and not self.violated and not self.post_failed and not self.exception


# --------------------------------------------------------------------------- harness runs

def read_ndjson(path):
    with open(path) as f:
        return [json.loads(x) for x in f if x.strip()]


def write_ndjson(path, items):
    with open(path, "w") as f:
        for it in items:
            f.write(json.dumps(it, separators=(",", ":")) + "\n")


SHARD_TIMEOUTS = []


def _drop_partial_test(op):
    """Cut a trace file back to its last complete test (reset ... end)."""
    if not os.path.exists(op):
        return
    lines = open(op).read().splitlines(True)
    last = 0
    for i, line in enumerate(lines):
        if '"ev":"end"' in line[:20]:
            last = i + 1
    with open(op, "w") as f:
        f.writelines(lines[:last])


def run_harness(binp, tests, wdir, shards=NCPU, timeout=3600, per_test_timeout="180s", env=None, max_hangs=4):
    """Run tests through the harness in parallel shards.  Returns a list of
    (tests_of_shard, trace_path).  A dead process is restarted after the test
    that killed it; that test gets a synthetic `panic` event (process death is
    an observation, not a harness failure)."""
    os.makedirs(wdir, exist_ok=True)
    shards = max(1, min(shards, len(tests)))
    parts = [tests[i::shards] for i in range(shards)]

    def one(i):
        part = parts[i]
        tp = os.path.join(wdir, "tests-%d.ndjson" % i)
        op = os.path.join(wdir, "trace-%d.ndjson" % i)
        write_ndjson(tp, part)
        if os.path.exists(op):
            os.remove(op)
        dbdir = os.path.join(wdir, "db-%d" % i)
        os.makedirs(dbdir, exist_ok=True)
        start = 0
        hangs = 0
        while start < len(part):
            try:
                p = subprocess.run([binp, "run", "-tests", tp, "-out", op, "-start", str(start), "-work", dbdir, "-timeout", per_test_timeout],
                                   stdout=subprocess.PIPE, stderr=subprocess.PIPE, text=True, timeout=timeout, env=env)
            except subprocess.TimeoutExpired:
                # the shard as a whole ran out of time (every test slow, none stuck): what was recorded completely is still
                # judged; the check cannot end with "held" (run_check turns this into exit 2 unless a violation was found)
                SHARD_TIMEOUTS.append(tp)
                _drop_partial_test(op)
                break
            if p.returncode == 0:
                break
            # count finished tests
            done = 0
            ended = True
            if os.path.exists(op):
                with open(op) as f:
                    for line in f:
                        if line.startswith('{"ev":"reset"') or '"ev":"reset"' in line[:40]:
                            done += 1
                            ended = False
                        elif '"ev":"end"' in line[:20]:
                            ended = True
            if p.returncode == 3:       # watchdog: hang event already written
                start = done
                hangs += 1
                if hangs >= max_hangs:  # every hang costs the watchdog delay: a few are evidence enough
                    break
                continue
            # process died (background panic, fatal error): synthesise the observation
            with open(op, "a") as f:
                if ended:
                    # died between tests or before writing reset of the next one
                    t = part[done] if done < len(part) else {"id": "?"}
                    f.write(json.dumps({"ev": "reset", "id": t["id"]}, separators=(",", ":")) + "\n")
                    done += 1
                f.write(json.dumps({"ev": "panic", "in": "process", "msg": "process died rc=%d" % p.returncode, "stack": p.stderr[-3000:]}, separators=(",", ":")) + "\n")
                f.write(json.dumps({"ev": "end"}, separators=(",", ":")) + "\n")
            start = done
        shutil.rmtree(dbdir, ignore_errors=True)
        return part, op

    with ThreadPoolExecutor(max_workers=shards) as ex:
        return list(ex.map(one, range(shards)))


# --------------------------------------------------------------------------- trace validation

TRACE_CFG = """SPECIFICATION Spec
CONSTANTS
  TraceFile = "%(file)s"
%(extra)s  Dev = {%(dev)s}
INVARIANTS %(invs)s
POSTCONDITION TraceAccepted
CHECK_DEADLOCK FALSE
"""


def split_tests(trace_path):
    """Return list of (test_id, [lines]) from a concatenated trace file."""
    tests = []
    cur = None
    with open(trace_path) as f:
        for line in f:
            if not line.strip():
                continue
            if '"ev":"reset"' in line[:60] or line.startswith('{"ev":"reset"'):
                try:
                    tid = json.loads(line).get("id", "?")
                except Exception:
                    tid = "?"
                cur = [tid, []]
                tests.append(cur)
            if cur is None:
                cur = ["?", []]
                tests.append(cur)
            cur[1].append(line)
    return tests


class Failure:
    def __init__(self, test_id, invariant, event_index, event, lines, tlc_tail):
        self.test_id, self.invariant, self.event_index, self.event, self.lines, self.tlc_tail = test_id, invariant, event_index, event, lines, tlc_tail


def _locate(r, part):
    """Map TLC's reported position to (index of the failing test in part, event index, event)."""
    l = r.last_l()
    if l is None and r.post_failed and not r.violated and r.distinct > 0:
        # the trace got stuck: deterministic step relation, one state per consumed line, so the
        # line that could not be consumed is number <distinct states>
        l = r.distinct
    if l is None:
        raise Inconclusive("TLC rejected a trace without a position:\n" + r.out[-3000:])
    ev_line = (l - 1) if r.violated else l
    n = 0
    for k, (tid, lines) in enumerate(part):
        if n + len(lines) >= ev_line:
            idx = ev_line - n - 1
            try:
                evt = json.loads(lines[idx]) if 0 <= idx < len(lines) else None
            except Exception:
                evt = None
            return k, idx, evt
        n += len(lines)
    raise Inconclusive("cannot map TLC position %s into the trace\n%s" % (l, r.out[-2000:]))


def validate_trace(trace_path, invs, wdir, module="SodTrace", dev=(), timeout=2400, max_fail=25, heap="3g", second=None, known=()):
    """Validate a concatenated trace with TLC (deviations off).  A rejected test is
    re-validated with the listed known deviations enabled: accepted => known finding,
    still rejected => violation.  Validation always resumes after the failing test,
    so the rest of the trace is checked.  Returns (failures, states, runs, known_hits)."""
    tests = split_tests(trace_path)
    tests2 = split_tests(second) if second else None
    if tests2 is not None:
        if [t[0] for t in tests] != [t[0] for t in tests2]:
            raise Inconclusive("paired traces do not contain the same tests: %s %s" % (trace_path, second))
        for a, b in zip(tests, tests2):
            while len(a[1]) < len(b[1]):
                a[1].append('{"ev":"pad"}\n')
            while len(b[1]) < len(a[1]):
                b[1].append('{"ev":"pad"}\n')
    os.makedirs(wdir, exist_ok=True)
    failures, hits = [], set()
    stat = {"states": 0, "runs": 0}

    def run(start, devs, count=None):
        part = tests[start:] if count is None else tests[start:start + count]
        fp = os.path.join(wdir, "part-%d.ndjson" % stat["runs"])
        with open(fp, "w") as f:
            for _, lines in part:
                f.writelines(lines)
        extra = ""
        fp2 = None
        if tests2 is not None:
            fp2 = os.path.join(wdir, "partB-%d.ndjson" % stat["runs"])
            with open(fp2, "w") as f:
                for _, lines in (tests2[start:] if count is None else tests2[start:start + count]):
                    f.writelines(lines)
            extra = '  TraceFileB = "%s"\n' % fp2
        cfg = TRACE_CFG % {"file": fp, "extra": extra, "dev": ", ".join('"%s"' % d for d in devs), "invs": " ".join(invs)}
        r = tlc(module, cfg, wdir, workers=1, timeout=timeout, heap=heap, name="%s_%d" % (module, stat["runs"]))
        if r.timeout:
            # a saturated machine: once more with three times the delay before giving up (exit 2, never a verdict)
            r = tlc(module, cfg, wdir, workers=1, timeout=timeout * 2, heap=heap, name="%s_%d_retry" % (module, stat["runs"]))
        stat["runs"] += 1
        stat["states"] += r.distinct
        os.remove(fp)
        if fp2:
            os.remove(fp2)
        if r.ok():
            return None
        if r.timeout:
            raise Inconclusive("TLC timed out validating " + trace_path)
        if not (r.violated or r.post_failed):
            raise Inconclusive("TLC failed on %s:\n%s" % (trace_path, r.out[-4000:]))
        k, idx, evt = _locate(r, part)
        return k, idx, evt, (r.violated[0] if r.violated else "TraceAccepted(stuck)"), r.out[-1500:]

    def fail(at, idx, evt, inv, tail):
        tid, lines = tests[at]
        fl = Failure(tid, inv, idx, evt, lines, tail)
        fl.lines2 = tests2[at][1] if tests2 is not None else None
        failures.append(fl)

    pos = 0
    alldev = [d for _, d in known]
    while pos < len(tests) and len(failures) < max_fail:
        res = run(pos, dev)
        if res is None:
            break
        k, idx, evt, inv, tail = res
        at = pos + k
        if not alldev:
            fail(at, idx, evt, inv, tail)
            pos = at + 1
            continue
        # attribute: does a listed deviation explain this test?
        # (one recording may show two listed findings at once - a crash state with a stale index entry AND two files
        # clashing on a unique value: the smallest set of deviations that explains it is looked for, singles first)
        explained = False
        import itertools
        for size in range(1, len(known) + 1):
            for combo in itertools.combinations(known, size):
                if run(at, list(dev) + [d for _, d in combo], count=1) is None:
                    for kid, _ in combo:
                        hits.add(kid)
                    explained = True
                    break
            if explained:
                break
        if not explained:
            fail(at, idx, evt, inv, tail)
            pos = at + 1
            continue
        # the rest of the shard with every listed deviation on: only unexplained rejections remain
        pos = at + 1
        while pos < len(tests) and len(failures) < max_fail:
            res2 = run(pos, list(dev) + alldev)
            if res2 is None:
                pos = len(tests)
                break
            k2, idx2, evt2, inv2, tail2 = res2
            fail(pos + k2, idx2, evt2, inv2, tail2)
            pos = pos + k2 + 1
        break
    return failures, stat["states"], stat["runs"], hits


def validate_many(shard_traces, invs, wdir, seconds=None, **kw):
    """Validate several trace files in parallel JVMs."""
    def one(i_tp):
        i, tp = i_tp
        return validate_trace(tp, invs, os.path.join(wdir, "val-%d" % i), second=seconds[i] if seconds else None, **kw)
    # as many JVMs as the memory that is available NOW allows (each may grow to its heap limit; the scratch directory of a
    # thorough run is several GB of tmpfs as well): an out-of-memory kill would be an inconclusive run, never a verdict
    par = min(NCPU, max(1, len(shard_traces)))
    try:
        with open("/proc/meminfo") as f:
            avail = int(re.search(r"MemAvailable:\s+(\d+) kB", f.read()).group(1)) / 1e6
        heap_gb = float(str(kw.get("heap", "3g")).rstrip("g"))
        par = max(2, min(par, int(avail * 0.7 / (heap_gb + 0.5))))
    except (OSError, AttributeError, ValueError):
        pass
    with ThreadPoolExecutor(max_workers=par) as ex:
        res = list(ex.map(one, enumerate(shard_traces)))
    failures, states, runs, hits = [], 0, 0, set()
    for f, s, r, h in res:
        failures += f
        states += s
        runs += r
        hits |= h
    return failures, states, runs, hits


# --------------------------------------------------------------------------- linearizability (SodLin)

LIN_CFG = """SPECIFICATION Spec
CONSTANTS
  TraceFile = "%(file)s"
  Dev = {}
CONSTRAINT Track
POSTCONDITION Accepted
CHECK_DEADLOCK FALSE
"""


def validate_lin(trace_path, wdir, timeout=900, max_fail=10, heap="4g"):
    """Check every recorded concurrent history of the file for a linearization (TLC explores the
    linearization points).  Returns (failures, states, runs)."""
    tests = split_tests(trace_path)
    os.makedirs(wdir, exist_ok=True)
    failures, states, runs = [], 0, 0
    pos = 0
    while pos < len(tests) and len(failures) < max_fail:
        part = tests[pos:]
        fp = os.path.join(wdir, "lin-%d.ndjson" % runs)
        with open(fp, "w") as f:
            for _, lines in part:
                f.writelines(lines)
        r = tlc("SodLin", LIN_CFG % {"file": fp}, wdir, workers=1, timeout=timeout, heap=heap, name="SodLin_%d" % runs)
        runs += 1
        states += r.distinct
        os.remove(fp)
        if r.timeout:
            raise Inconclusive("TLC timed out on " + trace_path)
        m = re.search(r'<<"HWM", (\d+), (\d+)>>', r.out)
        if not m or r.exception:
            raise Inconclusive("SodLin run failed on %s:\n%s" % (trace_path, r.out[-3000:]))
        hwm, total = int(m.group(1)), int(m.group(2))
        if hwm == total + 1:
            break
        # H[hwm] could not be consumed: the history containing it has no linearization
        n = 0
        hit = None
        for k, (tid, lines) in enumerate(part):
            if n + len(lines) >= hwm:
                hit = k
                break
            n += len(lines)
        if hit is None:
            raise Inconclusive("cannot map HWM %d" % hwm)
        tid, lines = part[hit]
        idx = hwm - n - 1
        try:
            evt = json.loads(lines[idx])
        except Exception:
            evt = None
        failures.append(Failure(tid, "Linearizable", idx, evt, lines, "no linearization: event %d of the history cannot be consumed" % idx))
        pos += hit + 1
    return failures, states, runs
