"""./verif replay <path>: re-execute a recorded violation on the current tree and let TLC judge the new trace."""
import json, os, sys
from . import vlib, checks
from .vlib import log


def run(path):
    with open(path) as f:
        rec = json.load(f)
    pid, module, invs, test = rec["property"], rec.get("module", "SodTrace"), rec.get("invariants", []), rec.get("test")
    log("replaying %s: property %s, invariant %s, test %s" % (path, pid, rec.get("invariant"), test and test.get("id")))
    if not test:
        log("this record has no executable test (driver-enumerated case); re-run ./verif check %s" % pid)
        return 2
    try:
        with vlib.Work("replay") as w:
            if module == "race-detector":
                binp = vlib.build(race=True)
                sh = vlib.run_harness(binp, [test] * 20, w.sub("run"), shards=4, env=dict(os.environ, GORACE="halt_on_error=1"), per_test_timeout="20s")
                bad = sum(1 for _, tp in sh for l in open(tp) if '"ev":"panic"' in l[:40] or '"ev":"hang"' in l[:40])
                log("race detector: %d reports in 20 runs" % bad)
                return report(pid, path, bad > 0)
            binp = vlib.build()
            if module == "watchdog":
                sh = vlib.run_harness(binp, [test] * 20, w.sub("run"), shards=4, per_test_timeout="10s", max_hangs=1)
                bad = sum(1 for _, tp in sh for l in open(tp) if '"ev":"hang"' in l[:40])
                log("watchdog: %d hangs in 20 runs" % bad)
                return report(pid, path, bad > 0)
            if module == "SodFinal":
                sh = vlib.run_harness(binp, [dict(test, id="%s-%d" % (test["id"], i)) for i in range(40)], w.sub("run"), shards=4, per_test_timeout="20s")
                bad = 0
                for i, (_, tp) in enumerate(sh):
                    cfg = 'SPECIFICATION Spec\nCONSTANTS\n  TraceFile = "%s"\nINVARIANTS NoPanic FinalOK\nPOSTCONDITION TraceAccepted\nCHECK_DEADLOCK FALSE\n' % tp
                    r = vlib.tlc("SodFinal", cfg, w.sub("val-%d" % i), workers=1, timeout=300, heap="2g")
                    if r.violated or r.post_failed:
                        bad += 1
                log("final state after concurrent Drop + Create: %d of 4 batches of 10 re-executions rejected" % bad)
                return report(pid, path, bad > 0)
            if module == "SodLin":
                sh = vlib.run_harness(binp, [dict(test, id="%s-%d" % (test["id"], i)) for i in range(50)], w.sub("run"), shards=4, per_test_timeout="10s")
                nf = 0
                for i, (_, tp) in enumerate(sh):
                    f, _, _ = vlib.validate_lin(tp, w.sub("val-%d" % i))
                    nf += len(f)
                log("linearizability: %d of 50 re-executions have no linearization" % nf)
                return report(pid, path, nf > 0)
            if module == "SodPair":
                a = vlib.run_harness(binp, [test], w.sub("run-a"), shards=1)
                b = vlib.run_harness(binp, [rec["test_b"]], w.sub("run-b"), shards=1)
                f, _, _, _ = vlib.validate_trace(a[0][1], ["Conf_C12"], w.sub("val"), module="SodPair", second=b[0][1])
                return report(pid, path, bool(f), f)
            sh = vlib.run_harness(binp, [test], w.sub("run"), shards=1)
            known = [(k["id"], k["deviation"]) for k in checks.load_known()["findings"] if k.get("status") == "known" and k["property"] == pid]
            f, _, _, hits = vlib.validate_trace(sh[0][1], ["NoPanic"] + [i for i in invs if i != "NoPanic"], w.sub("val"), module=module, known=known)
            if hits and not f:
                log("the rejection is explained by known finding(s): %s" % ", ".join(sorted(hits)))
            return report(pid, path, bool(f), f)
    except vlib.Inconclusive as e:
        log("INCONCLUSIVE: %s" % str(e)[:3000])
        return 2


def report(pid, path, bad, failures=None):
    if bad:
        for f in failures or []:
            log("  rejected by %s at event %s: %s" % (f.invariant, f.event_index, json.dumps(f.event)[:300] if f.event else ""))
        print("VIOLATION property=%s replay=%s" % (pid, path), flush=True)
        return 1
    log("not reproduced on the current tree: the trace of the re-execution is accepted")
    return 0
