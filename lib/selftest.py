"""./verif selftest [--seeded]: demonstrations that the machinery is bound to the code and not vacuous.

 1. binding: a recorded trace of the real code is accepted; the same trace with ONE logged field corrupted,
    or ONE event dropped, is rejected by TLC (for the sequential, pair and linearizability specifications);
 2. deviations: every named deviation of the design model (SodImpl) switched on alone makes an invariant fail;
 3. coverage: TLC -coverage on the design model: every action of Next is taken;
 4. (--seeded) every change under /verif/seeded is applied to a scratch worktree of /repo and the quick check of
    its property must report a violation.
"""
import json, os, random, re, subprocess, sys
from . import vlib, gen, checks
from .vlib import log


def _trace(w, tests, label):
    binp = vlib.build()
    sh = vlib.run_harness(binp, tests, w.sub("run-" + label), shards=1)
    return sh[0][1]


def binding(w):
    ok = True
    binp = vlib.build()
    uni = gen.universe(binp)
    rng = random.Random(11)
    tests = [gen.random_test(uni, rng, i, nops=25, p_query=0.1) for i in range(4)]
    tp = _trace(w, tests, "bind")
    invs = ["NoPanic", "Conf_C01", "Conf_C02", "Conf_C03", "Conf_C04", "Conf_C06", "Conf_C07", "Conf_C13", "Conf_C15", "Conf_C16"]
    f, _, _, _ = vlib.validate_trace(tp, invs, w.sub("v0"))
    log("binding: good trace accepted: %s" % (not f))
    ok &= not f
    lines = open(tp).read().splitlines()
    # corrupt one logged field: the count of the first sweep
    i = next(k for k, l in enumerate(lines) if '"ev":"obs"' in l and '"count":' in l)
    e = json.loads(lines[i])
    e["count"] += 1
    bad = lines[:i] + [json.dumps(e, separators=(",", ":"))] + lines[i + 1:]
    p = w.path("corrupt.ndjson")
    open(p, "w").write("\n".join(bad) + "\n")
    f, _, _, _ = vlib.validate_trace(p, invs, w.sub("v1"))
    log("binding: one corrupted field rejected: %s (%s)" % (bool(f), f[0].invariant if f else "-"))
    ok &= bool(f)
    # drop one accepted write
    i = next(k for k, l in enumerate(lines) if '"ev":"put"' in l and '"c":"ok"' in l)
    p = w.path("dropped.ndjson")
    open(p, "w").write("\n".join(lines[:i] + lines[i + 1:]) + "\n")
    f, _, _, _ = vlib.validate_trace(p, invs, w.sub("v2"))
    log("binding: one dropped event rejected: %s (%s)" % (bool(f), f[0].invariant if f else "-"))
    ok &= bool(f)
    # an unknown event kind is not consumed
    p = w.path("unknown.ndjson")
    open(p, "w").write("\n".join(lines[:5] + ['{"ev":"bogus"}'] + lines[5:]) + "\n")
    f, _, _, _ = vlib.validate_trace(p, invs, w.sub("v3"))
    log("binding: unknown event kind rejected: %s" % bool(f))
    ok &= bool(f)
    # linearizability: corrupt one returned value
    ct = [gen.conc_test(uni, rng, i, nthreads=3, nops=3) for i in range(20)]
    tp = _trace(w, ct, "lin")
    f, _, _ = vlib.validate_lin(tp, w.sub("l0"))
    log("binding: recorded histories linearizable: %s" % (not f))
    ok &= not f
    lines = open(tp).read().splitlines()
    i = next(k for k, l in enumerate(lines) if '"ev":"ret"' in l and '"op":"count"' in l)
    e = json.loads(lines[i])
    e["n"] += 7
    p = w.path("lin-corrupt.ndjson")
    open(p, "w").write("\n".join(lines[:i] + [json.dumps(e, separators=(",", ":"))] + lines[i + 1:]) + "\n")
    f, _, _ = vlib.validate_lin(p, w.sub("l1"))
    log("binding: history with one corrupted result has no linearization: %s" % bool(f))
    ok &= bool(f)
    return ok


def deviations(w):
    ok = True
    for d, sw in (("CacheBeforeCheck", False), ("CacheFailedGet", False), ("ExistStatsFile", False), ("SwitchStrandsPending", True), ("SwitchKeepsCache", True),
                  ("FlushWritesArgument", False), ("DropKeepsMemory", False), ("RepairDropsPending", False)):
        r = gen.mc_check(w.sub("dev-" + d), slots=2, kvals=2, avals=2, maxbatch=1, maxops=4, switch=sw, flusher=True, dev=(d,), bfilter="NoBatch", workers=8,
                         flushone=(d == "FlushWritesArgument"), drop=(d == "DropKeepsMemory"), repair=(d == "RepairDropsPending"))
        broke = bool(r.violated or r.prop_violated)
        log("deviation %-22s breaks the design model: %s (%s)" % (d, broke, ", ".join(r.violated) or "-"))
        ok &= broke
    r = gen.mc_check(w.sub("dev-none"), slots=2, kvals=2, avals=2, maxbatch=1, maxops=4, switch=True, flusher=True, dev=(), bfilter="NoBatch", workers=8, flushone=True, drop=True, repair=True)
    log("design model without deviation holds: %s (%d states)" % (r.completed and not r.violated, r.distinct))
    ok &= r.completed and not r.violated
    return ok


def coverage(w):
    cfg = gen.impl_cfg(slots=2, kvals=2, avals=2, maxbatch=2, maxops=4, switch=True, flusher=True, get=True, handle=True, bfilter="PairBatch", flushone=True, drop=True, repair=True)
    r = vlib.tlc("MCImpl", cfg, w.sub("cov"), workers=8, timeout=900, heap="8g", extra=("-coverage", "1"))
    zero = []
    for m in re.finditer(r"<(\w+) line \d+, col \d+ to line \d+, col \d+ of module SodImpl>: (\d+):(\d+)", r.out):
        if int(m.group(3)) == 0:
            zero.append(m.group(1))
    acts = set(re.findall(r"<(\w+) line \d+, col \d+ to line \d+, col \d+ of module SodImpl>: \d+:\d+", r.out))
    log("coverage: %d actions of SodImpl reported, never taken: %s" % (len(acts), sorted(set(zero)) or "none"))
    return r.completed and not zero


def _one_seed(root, name):
    """-> (name, verdict string, ok)"""
    meta = json.load(open(os.path.join(root, name, "meta.json")))
    pid = meta["property"]
    if "not applicable" in (meta.get("history") or ""):
        return name, "not applicable (%s)" % meta["history"][:80], True
    wt = "/tmp/st-" + name
    subprocess.run(["git", "-C", "/repo", "worktree", "remove", "--force", wt], capture_output=True)
    subprocess.run(["git", "-C", "/repo", "worktree", "add", "-q", "--detach", wt, "HEAD"], check=True)
    try:
        p = subprocess.run(["git", "-C", wt, "apply", "-3", "--whitespace=nowarn", os.path.join(root, name, "patch.diff")], capture_output=True, text=True)
        if p.returncode != 0:
            return name, "patch no longer applies to HEAD (skipped)", True
        # does the change still break anything on this HEAD?  (a later fix: commit may have made it harmless: its own
        # demonstration then passes, and there is nothing left to detect)
        demo = os.path.join(root, name, "demo_test.go")
        if os.path.exists(demo):
            import shutil
            shutil.copy(demo, os.path.join(wt, "zz_seeded_demo_test.go"))
            env = dict(os.environ, GOFLAGS="-mod=mod", GOPROXY="off", GOSUMDB="off", GOTOOLCHAIN="local")
            pd = subprocess.run(["go", "test", "-vet=off", "-count=1", "-run", "TestSeeded", "."], cwd=wt, env=env, capture_output=True, text=True)
            os.remove(os.path.join(wt, "zz_seeded_demo_test.go"))
            shutil.rmtree(os.path.join(wt, "data"), ignore_errors=True)
            if pd.returncode == 0:
                return name, "its own demonstration passes on this HEAD: made harmless by a later fix (skipped)", True
        which = [pid] + [c for c in meta.get("checks_run", {}) if c != pid]
        for c in which:
            p = subprocess.run([os.path.join(vlib.VERIF, "verif"), "check", c, "--tier", "quick"], cwd=vlib.VERIF, env=dict(os.environ, VERIF_REPO=wt), capture_output=True, text=True)
            if p.returncode == 1 and "VIOLATION" in p.stdout:
                return name, "(%s): detected by %s" % (pid, c), True
        return name, "(%s): NOT DETECTED" % pid, False
    finally:
        subprocess.run(["git", "-C", "/repo", "worktree", "remove", "--force", wt], capture_output=True)


def seeded(w):
    """Every seeded change, three at a time, each in its own scratch worktree of /repo HEAD."""
    from concurrent.futures import ThreadPoolExecutor
    ok = True
    root = os.path.join(vlib.VERIF, "seeded")
    names = sorted(os.listdir(root))
    only = os.environ.get("SEEDED_ONLY")
    if only:
        names = [n for n in names if n in only.split(",")]
    with ThreadPoolExecutor(int(os.environ.get("SEEDED_PAR", "3"))) as ex:
        for name, verdict, good in ex.map(lambda n: _one_seed(root, n), names):
            log("seeded %-8s %s" % (name, verdict))
            ok &= good
    return ok


def run():
    res = {}
    with vlib.Work("selftest") as w:
        res["binding"] = binding(w)
        res["deviations"] = deviations(w)
        res["coverage"] = coverage(w)
        if "--seeded" in sys.argv:
            res["seeded"] = seeded(w)
    log("selftest: " + ", ".join("%s=%s" % kv for kv in res.items()))
    return 0 if all(res.values()) else 1
