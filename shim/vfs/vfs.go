// Package vfs is the file-system shim the verification rewriter substitutes for
// the os / io/ioutil file functions in a scratch copy of the sod package.
//
// It is strictly pass-through unless a driver switches something on:
//   - Record(true): every call is appended to an operation log (mutating calls
//     with, lazily, the content they left in the file);
//   - SetFault(n, kind): the n-th call (1-based, counted from the last Reset)
//     fails with an injected I/O error;
//   - SetPerturb(seed): yields / tiny sleeps at every call (schedule
//     perturbation for concurrent runs; adds no synchronisation of its own).
//
// Signatures are those of the standard library so that the rewritten package
// compiles unchanged.
package vfs

import (
	"io/fs"
	"io/ioutil"
	"math/rand"
	"os"
	"runtime"
	"sync"
	"sync/atomic"
	"syscall"
	"time"
)

// Op is one logged file-system call.
type Op struct {
	Seq   int    `json:"seq"`
	Kind  string `json:"kind"` // mkdirall mkdir openw openr create writefile remove removeall rename stat lstat readdir readfile truncate link symlink chmod createtemp
	Path  string `json:"path"`
	Path2 string `json:"path2,omitempty"`
	Mut   bool   `json:"mut"`            // mutates the directory tree / file contents
	Trunc bool   `json:"trunc,omitempty"` // open with O_TRUNC (or WriteFile)
	Err   bool   `json:"err,omitempty"`   // the call returned an error
	Fault bool   `json:"fault,omitempty"` // the error was injected
	// Data is the content of Path when the next call was made (or at Drain):
	// what the write that followed the open left in the file.
	Data    []byte `json:"-"`
	HasData bool   `json:"-"`
}

var (
	recording atomic.Bool
	perturbOn atomic.Bool
	gateOn    atomic.Bool

	mu       sync.Mutex
	log      []*Op
	counter  int
	faultAt  int
	faultSub string // "" (fail the call) | "write" (open succeeds, later write fails) | "after" (effect happens, error returned)
	faulted  bool

	// ErrInjected is what injected faults wrap.
	ErrInjected = syscall.EIO

	// Gate, when installed, is called before every op with its kind and path;
	// used by directed-schedule replays.  Never used together with -race.
	Gate func(kind, path string)
)

// Recording reports whether the operation log is on.
func Recording() bool { return recording.Load() }

// Record switches the operation log on or off.
func Record(on bool) { recording.Store(on) }

// Reset clears the log, the call counter and any armed fault.
func Reset() {
	mu.Lock()
	defer mu.Unlock()
	log = nil
	counter = 0
	faultAt = 0
	faultSub = ""
	faulted = false
}

// SetFault arms a single fault at the n-th call from now (1-based).
func SetFault(n int, sub string) {
	mu.Lock()
	defer mu.Unlock()
	faultAt = counter + n
	faultSub = sub
	faulted = false
}

// Faulted reports whether the armed fault fired.
func Faulted() bool {
	mu.Lock()
	defer mu.Unlock()
	return faulted
}

// Count returns the number of calls seen since Reset.
func Count() int {
	mu.Lock()
	defer mu.Unlock()
	return counter
}

// Drain finalises pending content captures and returns (and clears) the log.
func Drain() []*Op {
	mu.Lock()
	defer mu.Unlock()
	finalizeLocked()
	out := log
	log = nil
	return out
}

// SetPerturb enables schedule perturbation.
func SetPerturb(on bool) { perturbOn.Store(on) }

// SetGate installs / removes the gate function.
func SetGate(g func(kind, path string)) {
	Gate = g
	gateOn.Store(g != nil)
}

var prng = sync.Pool{New: func() interface{} { return rand.New(rand.NewSource(time.Now().UnixNano())) }}

func perturb() {
	if !perturbOn.Load() {
		return
	}
	r := prng.Get().(*rand.Rand)
	switch r.Intn(8) {
	case 0, 1, 2:
		runtime.Gosched()
	case 3:
		time.Sleep(time.Duration(r.Intn(200)) * time.Microsecond)
	}
	prng.Put(r)
}

func finalizeLocked() {
	if n := len(log); n > 0 {
		op := log[n-1]
		if !op.HasData && (op.Kind == "openw" || op.Kind == "create" || op.Kind == "createtemp") && !op.Err {
			if b, err := ioutil.ReadFile(op.Path); err == nil {
				op.Data = b
			}
			op.HasData = true
		}
	}
}

// enter registers a call; it returns the op (nil when not recording) and
// whether this call must fail, and with which sub-kind.
func enter(kind, path, path2 string, mut, trunc bool) (op *Op, fail bool, sub string) {
	perturb()
	if gateOn.Load() {
		if g := Gate; g != nil {
			g(kind, path)
		}
	}
	if !recording.Load() {
		mu.Lock()
		counter++
		if faultAt != 0 && counter == faultAt {
			fail, sub, faulted = true, faultSub, true
		}
		mu.Unlock()
		return nil, fail, sub
	}
	mu.Lock()
	defer mu.Unlock()
	finalizeLocked()
	counter++
	op = &Op{Seq: counter, Kind: kind, Path: path, Path2: path2, Mut: mut, Trunc: trunc}
	log = append(log, op)
	if faultAt != 0 && counter == faultAt {
		fail, sub, faulted = true, faultSub, true
		op.Fault = true
	}
	return
}

func done(op *Op, err error) {
	if op != nil && err != nil {
		mu.Lock()
		op.Err = true
		mu.Unlock()
	}
}

func injected(opname, path string) error {
	return &fs.PathError{Op: opname, Path: path, Err: ErrInjected}
}

func MkdirAll(path string, perm os.FileMode) (err error) {
	op, fail, sub := enter("mkdirall", path, "", true, false)
	defer func() { done(op, err) }()
	if fail && sub != "after" {
		return injected("mkdir", path)
	}
	err = os.MkdirAll(path, perm)
	if fail && err == nil {
		err = injected("mkdir", path)
	}
	return
}

func Mkdir(path string, perm os.FileMode) (err error) {
	op, fail, sub := enter("mkdir", path, "", true, false)
	defer func() { done(op, err) }()
	if fail && sub != "after" {
		return injected("mkdir", path)
	}
	err = os.Mkdir(path, perm)
	if fail && err == nil {
		err = injected("mkdir", path)
	}
	return
}

func OpenFile(name string, flag int, perm os.FileMode) (f *os.File, err error) {
	w := flag&(os.O_WRONLY|os.O_RDWR|os.O_APPEND|os.O_CREATE|os.O_TRUNC) != 0
	kind := "openr"
	if w {
		kind = "openw"
	}
	op, fail, sub := enter(kind, name, "", w, flag&os.O_TRUNC != 0)
	defer func() { done(op, err) }()
	if fail {
		if w && sub == "write" {
			// the open (and truncation) happens, every later write fails
			if f, err = os.OpenFile(name, flag, perm); err != nil {
				return
			}
			f.Close()
			return os.OpenFile(name, os.O_RDONLY, perm)
		}
		return nil, injected("open", name)
	}
	return os.OpenFile(name, flag, perm)
}

func Open(name string) (f *os.File, err error) {
	op, fail, _ := enter("openr", name, "", false, false)
	defer func() { done(op, err) }()
	if fail {
		return nil, injected("open", name)
	}
	return os.Open(name)
}

func Create(name string) (f *os.File, err error) {
	op, fail, sub := enter("create", name, "", true, true)
	defer func() { done(op, err) }()
	if fail {
		if sub == "write" {
			if f, err = os.Create(name); err != nil {
				return
			}
			f.Close()
			return os.OpenFile(name, os.O_RDONLY, 0)
		}
		return nil, injected("open", name)
	}
	return os.Create(name)
}

func CreateTemp(dir, pattern string) (f *os.File, err error) {
	op, fail, sub := enter("createtemp", dir, pattern, true, true)
	defer func() { done(op, err) }()
	if fail && sub != "write" {
		return nil, injected("open", dir)
	}
	f, err = os.CreateTemp(dir, pattern)
	if err == nil && op != nil {
		mu.Lock()
		op.Path = f.Name()
		mu.Unlock()
	}
	if fail && err == nil {
		name := f.Name()
		f.Close()
		return os.OpenFile(name, os.O_RDONLY, 0)
	}
	return
}

// TempFile is ioutil.TempFile.
func TempFile(dir, pattern string) (*os.File, error) { return CreateTemp(dir, pattern) }

func WriteFile(name string, data []byte, perm os.FileMode) (err error) {
	op, fail, sub := enter("writefile", name, "", true, true)
	if op != nil {
		mu.Lock()
		op.Data = append([]byte(nil), data...)
		op.HasData = true
		mu.Unlock()
	}
	defer func() { done(op, err) }()
	if fail {
		switch sub {
		case "write":
			// truncated, nothing written
			if f, e := os.OpenFile(name, os.O_WRONLY|os.O_CREATE|os.O_TRUNC, perm); e == nil {
				f.Close()
			}
			return injected("write", name)
		case "after":
			if err = os.WriteFile(name, data, perm); err != nil {
				return
			}
			return injected("write", name)
		}
		return injected("open", name)
	}
	return os.WriteFile(name, data, perm)
}

func ReadFile(name string) (b []byte, err error) {
	op, fail, _ := enter("readfile", name, "", false, false)
	defer func() { done(op, err) }()
	if fail {
		return nil, injected("open", name)
	}
	return os.ReadFile(name)
}

func Remove(name string) (err error) {
	op, fail, sub := enter("remove", name, "", true, false)
	defer func() { done(op, err) }()
	if fail && sub != "after" {
		return injected("remove", name)
	}
	err = os.Remove(name)
	if fail && err == nil {
		err = injected("remove", name)
	}
	return
}

func RemoveAll(path string) (err error) {
	op, fail, _ := enter("removeall", path, "", true, false)
	defer func() { done(op, err) }()
	if fail {
		return injected("unlinkat", path)
	}
	return os.RemoveAll(path)
}

func Rename(oldpath, newpath string) (err error) {
	op, fail, sub := enter("rename", oldpath, newpath, true, false)
	defer func() { done(op, err) }()
	if fail && sub != "after" {
		return &os.LinkError{Op: "rename", Old: oldpath, New: newpath, Err: ErrInjected}
	}
	err = os.Rename(oldpath, newpath)
	if fail && err == nil {
		err = &os.LinkError{Op: "rename", Old: oldpath, New: newpath, Err: ErrInjected}
	}
	return
}

func Link(oldname, newname string) (err error) {
	op, fail, _ := enter("link", oldname, newname, true, false)
	defer func() { done(op, err) }()
	if fail {
		return &os.LinkError{Op: "link", Old: oldname, New: newname, Err: ErrInjected}
	}
	return os.Link(oldname, newname)
}

func Symlink(oldname, newname string) (err error) {
	op, fail, _ := enter("symlink", oldname, newname, true, false)
	defer func() { done(op, err) }()
	if fail {
		return &os.LinkError{Op: "symlink", Old: oldname, New: newname, Err: ErrInjected}
	}
	return os.Symlink(oldname, newname)
}

func Truncate(name string, size int64) (err error) {
	op, fail, _ := enter("truncate", name, "", true, false)
	defer func() { done(op, err) }()
	if fail {
		return injected("truncate", name)
	}
	return os.Truncate(name, size)
}

func Chmod(name string, mode os.FileMode) (err error) {
	op, fail, _ := enter("chmod", name, "", true, false)
	defer func() { done(op, err) }()
	if fail {
		return injected("chmod", name)
	}
	return os.Chmod(name, mode)
}

func Stat(name string) (fi os.FileInfo, err error) {
	op, fail, _ := enter("stat", name, "", false, false)
	defer func() { done(op, err) }()
	if fail {
		return nil, injected("stat", name)
	}
	return os.Stat(name)
}

func Lstat(name string) (fi os.FileInfo, err error) {
	op, fail, _ := enter("lstat", name, "", false, false)
	defer func() { done(op, err) }()
	if fail {
		return nil, injected("lstat", name)
	}
	return os.Lstat(name)
}

func ReadDir(name string) (e []os.DirEntry, err error) {
	op, fail, _ := enter("readdir", name, "", false, false)
	defer func() { done(op, err) }()
	if fail {
		return nil, injected("open", name)
	}
	return os.ReadDir(name)
}

// IoutilReadDir is ioutil.ReadDir.
func IoutilReadDir(name string) (fi []os.FileInfo, err error) {
	op, fail, _ := enter("readdir", name, "", false, false)
	defer func() { done(op, err) }()
	if fail {
		return nil, injected("open", name)
	}
	return ioutil.ReadDir(name)
}
