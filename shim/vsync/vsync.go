// Package vsync wraps sync.Mutex / sync.RWMutex for the rewritten scratch copy
// of sod.  Pass-through unless a hook is installed (lock-event recording,
// gates for directed schedules).  Never install a hook in -race runs: the hook
// would add happens-before edges and hide races.
package vsync

import (
	"sync"
	"sync/atomic"
)

// Hook receives (event, mutex identity).  Events: "lock?" (about to request),
// "lock!" (acquired), "unlock", "rlock?", "rlock!", "runlock".
type HookFn func(ev string, m uintptr)

var hook atomic.Value // HookFn

func SetHook(h HookFn) {
	if h == nil {
		hook.Store(HookFn(nil))
		return
	}
	hook.Store(h)
}

func call(ev string, m uintptr) {
	if h, _ := hook.Load().(HookFn); h != nil {
		h(ev, m)
	}
}

type Locker = sync.Locker
type WaitGroup = sync.WaitGroup
type Once = sync.Once
type Map = sync.Map
type Pool = sync.Pool
type Cond = sync.Cond

func NewCond(l Locker) *Cond { return sync.NewCond(l) }

type Mutex struct {
	mu sync.Mutex
	id uintptr
}

var ids uintptr

func ident(p *uintptr) uintptr {
	if v := atomic.LoadUintptr(p); v != 0 {
		return v
	}
	n := atomic.AddUintptr(&ids, 1)
	if atomic.CompareAndSwapUintptr(p, 0, n) {
		return n
	}
	return atomic.LoadUintptr(p)
}

func (m *Mutex) Lock() {
	id := ident(&m.id)
	call("lock?", id)
	m.mu.Lock()
	call("lock!", id)
}

func (m *Mutex) TryLock() bool { return m.mu.TryLock() }

func (m *Mutex) Unlock() {
	call("unlock", ident(&m.id))
	m.mu.Unlock()
}

type RWMutex struct {
	mu sync.RWMutex
	id uintptr
}

func (m *RWMutex) Lock() {
	id := ident(&m.id)
	call("lock?", id)
	m.mu.Lock()
	call("lock!", id)
}

func (m *RWMutex) Unlock() {
	call("unlock", ident(&m.id))
	m.mu.Unlock()
}

func (m *RWMutex) RLock() {
	id := ident(&m.id)
	call("rlock?", id)
	m.mu.RLock()
	call("rlock!", id)
}

func (m *RWMutex) RUnlock() {
	call("runlock", ident(&m.id))
	m.mu.RUnlock()
}

func (m *RWMutex) TryLock() bool  { return m.mu.TryLock() }
func (m *RWMutex) TryRLock() bool { return m.mu.TryRLock() }

type rlocker RWMutex

func (r *rlocker) Lock()   { (*RWMutex)(r).RLock() }
func (r *rlocker) Unlock() { (*RWMutex)(r).RUnlock() }

func (m *RWMutex) RLocker() Locker { return (*rlocker)(m) }
