// Package vtime replaces time.Sleep in the rewritten scratch copy of sod.
// Real sleep (optionally scaled) unless the virtual clock is on: then Sleep
// blocks until the driver has advanced the clock by the requested duration,
// which makes the background flusher's schedule deterministic.
package vtime

import (
	"sync"
	"time"
)

var (
	mu       sync.Mutex
	cond     = sync.NewCond(&mu)
	virtual  bool
	now      time.Duration
	sleepers int
	parked   int64 // total number of Sleep calls that have parked so far
	kicks    int   // generation of Kick: a sleeper of an older generation returns early
	scale    = 1
)

// Scale divides every real sleep by n (n >= 1).
func Scale(n int) {
	mu.Lock()
	if n < 1 {
		n = 1
	}
	scale = n
	mu.Unlock()
}

// Virtual switches the virtual clock on or off; switching off releases every sleeper.
func Virtual(on bool) {
	mu.Lock()
	virtual = on
	if !on {
		now += 1 << 50
	}
	cond.Broadcast()
	mu.Unlock()
}

// Advance moves the virtual clock forward.
func Advance(d time.Duration) {
	mu.Lock()
	now += d
	cond.Broadcast()
	mu.Unlock()
}

// Sleepers returns how many goroutines are parked in Sleep, and how many
// Sleep calls have parked in total.
func Sleepers() (int, int64) {
	mu.Lock()
	defer mu.Unlock()
	return sleepers, parked
}

// WaitParked waits (real time, bounded) until the total number of parked
// Sleep calls exceeds n or timeout elapses; returns the current total.
func WaitParked(n int64, timeout time.Duration) int64 {
	deadline := time.Now().Add(timeout)
	for {
		mu.Lock()
		p := parked
		mu.Unlock()
		if p > n || time.Now().After(deadline) {
			return p
		}
		time.Sleep(200 * time.Microsecond)
	}
}

// Kick makes every goroutine parked in Sleep return at once, without moving the clock.  The driver uses it
// right after the settings of a collection were replaced: the flusher goroutine of the OLD settings then
// takes its next decision (it finds itself replaced and exits) instead of staying parked next to its successor.
func Kick() {
	mu.Lock()
	kicks++
	cond.Broadcast()
	mu.Unlock()
}

func Sleep(d time.Duration) {
	mu.Lock()
	if !virtual {
		s := scale
		mu.Unlock()
		time.Sleep(d / time.Duration(s))
		return
	}
	until := now + d
	sleepers++
	parked++
	k := kicks
	for virtual && now < until && kicks == k {
		cond.Wait()
	}
	sleepers--
	mu.Unlock()
}
